#!/usr/bin/env python3
"""Regenerate MANIFEST.json from props/*.py (claimed) and the not-applicable table below."""
import importlib.util
import json
import os
import re

D = os.path.dirname(os.path.dirname(os.path.abspath(__file__)))
ALL = [json.loads(l)['id'] for l in open(os.path.join(D, 'properties.jsonl'))]
NOT_APPLICABLE = {
    # id: reason  (only for properties with no props/cNN.py)
}
NOT_YET = 'harness not built yet in this round (design in DESIGN.md section 5); no claim is made'

checks = []
na = []
for pid in ALL:
    path = os.path.join(D, 'props', pid.lower() + '.py')
    if not os.path.exists(path):
        na.append(dict(property_id=pid, reason=NOT_APPLICABLE.get(pid, NOT_YET)))
        continue
    src = open(path).read()
    if re.search(r'^WIP\s*=\s*True', src, re.M):
        na.append(dict(property_id=pid, reason=NOT_YET))
        continue
    def grab(name, default=''):
        m = re.search(rf"^{name}\s*=\s*(\(.*?\)|'.*?'|\".*?\")\s*$", src, re.S | re.M)
        return eval(m.group(1)) if m else default
    level = grab('LEVEL', 'exploration')
    checks.append(dict(
        property_id=pid,
        quick_cmd=f'./check {pid} --tier quick',
        thorough_cmd=f'./check {pid} --tier thorough',
        evidence_file=f'/verif/evidence/{pid}.json',
        replay_cmd_template=f'./check {pid} --replay {{path}}',
        engine='vfw',
        level_claimed=dict(category=level, text=grab('LEVEL_TEXT', ''), design_ref=f'DESIGN.md section 5 ({pid})'),
        level_note=grab('LEVEL_NOTE', 'bounded: holds only within the stated bounds; trusted base CPython 3.12, CrossHair 0.0.110 models, z3 5.1, StepLoop stub (FIFO, no timers)'),
        technique=grab('TECHNIQUE', 'bounded symbolic execution of the real plumpy code (CrossHair/z3), exhaustive path search with native replay of counterexamples'),
    ))

m = dict(
    version=1,
    setup_cmd='bash ./setup.sh',
    hooks=dict(guard='AIIDATEAM_PLUMPY_VERIF', enable='no source hooks are used; checks import plumpy from /repo/src at run time (guard variable is exported by ./check but nothing in /repo reads it)',
               baseline_off_cmd='cd /repo && /venv/bin/python -m pytest -ra -q -p no:cacheprovider --timeout=900 --continue-on-collection-errors', source_commits=[], add_only=True),
    engines=[dict(name='vfw', path='/verif/vfw', serves_properties=[c['property_id'] for c in checks],
                  kind_free_text='custom CrossHair (z3) path-exhaustion driver over harness functions that drive the unmodified plumpy classes on a deterministic event-loop stub; sharded over 16 processes; native replay; known-findings matching')],
    checks=checks,
    notes='Every verdict is bounded (see evidence coverage.bounds / outside_bounds). Exit 3 = harness error (never a pass).',
    not_applicable=na,
)
json.dump(m, open(os.path.join(D, 'MANIFEST.json'), 'w'), indent=1)
print('claimed', [c['property_id'] for c in checks], 'not claimed', len(na))
