#!/usr/bin/env python3
"""Confirm every seeded change in a scratch worktree of /repo (HEAD) and record which checks catch it.

For each seed: (a) the existing suite passes with the change, (b) its demonstration fails with the change,
(c) passes without it, (d) the listed quick checks, run against the scratch source tree (PLUMPY_SRC), exit 1.
Writes /verif/seeded/<seed id>/{patch.diff, demo_test.py, meta.json}.  /repo itself is never touched.
"""
import json, os, shutil, subprocess, sys

W = '/tmp/wt_confirm'
V = '/verif'
SEEDS = [
 # seed id, source dir, patch, demo, property it was aimed at, checks expected to catch it, what it needs
 ('C01-1', '_ported/C01:_unconfirmed/C01', 'patch.diff', 'demo_test.py', 'C01', ['C04'], 'pause, then kill while the stepping coroutine is parked on the paused future, then play: the stale state object is executed (on the repaired tree the step body runs after the kill; on the pinned tree KILLED -> EXCEPTED)'),
 ('C02-1', '_ported/C02:_unconfirmed/C02', 'patch.diff', 'demo_test.py', 'C02', ['C02'], 'process paused, then terminated while paused, then the parked step wakes: assertion raised out of step_until_terminated()'),
 ('C03-1', '_unconfirmed/C03', 'patch.diff', 'demo_test.py', 'C03', ['C03'], 'fault in a hook that runs after the future was resolved while the state is not FINISHED (on_killed / on_finish after super / on_terminated)'),
 ('C03-2', '_round2/C03', 'patch.diff', 'demo_test.py', 'C03', ['C03'], 'pause requested during a step + fault in the pause hook + a second pause request'),
 ('C04-1', '_ported/C04:_unconfirmed/C04', 'patch.diff', 'demo_test.py', 'C04', ['C04'], 'kill during a running step followed by play() before the step yields'),
 ('C05-1', '_ported/C05:_unconfirmed/C05', 'patch.diff', 'demo_test.py', 'C05', ['C05'], 'status set + pause requested mid-step + play before the step boundary'),
 ('C05-2', '_ported/C05:_unconfirmed/C05', 'patch2.diff', 'demo2_test.py', 'C05', ['C05'], 'pause mid-step, play before the boundary, then pause again'),
 ('C07-1', '_unconfirmed/C07', 'patch.diff', 'demo_test.py', 'C07', ['C07', 'C08'], 'checkpoint in the middle of a while_ body with >= 2 instructions'),
 ('C07-2', '_unconfirmed/C07', 'patch2.diff', 'demo2_test.py', 'C07', ['C07'], 'process constructed with an explicitly empty inputs dict, then saved and loaded'),
 ('C08-1', '_unconfirmed/C08', 'patch.diff', 'demo_test.py', 'C08', ['C08'], 'crash point inside an elif_/else_ body of >= 2 steps whose length differs from the first branch'),
 ('C09-1', '_unconfirmed/C09', 'patch.diff', 'demo_test.py', 'C09', ['C09'], 'last executed step of the outline returns a (possibly empty) ToContext'),
 ('C10-1', '_ported/C10:_unconfirmed/C10', 'patch.diff', 'demo_test.py', 'C10', ['C10'], '>= 2 awaited items, a success and a failure completing without a loop callback in between, success first'),
 ('C11-1', '_unconfirmed/C11', 'patch.diff', 'demo_test.py', 'C11', ['C11'], 'populate_defaults=False namespace supplied as an explicitly empty mapping'),
 ('C11-2', '_unconfirmed/C11', 'patch2.diff', 'demo2_test.py', 'C11', ['C11'], 'dynamic typed namespace with a wrongly typed FALSY value at any depth'),
 ('C12-1', '_unconfirmed/C12', 'patch.diff', 'demo_test.py', 'C12', ['C12', 'C11'], 'dynamic typed output namespace + wrongly typed falsy value'),
 ('C13-1', '_ported/C13:_unconfirmed/C13', 'patch.diff', 'demo_test.py', 'C13', ['C13'], 'Wait, resume() without value, checkpoint after WAITING->RUNNING but before the continuation ran, restore'),
 ('C14-1', '_unconfirmed/C14', 'patch.diff', 'demo_test.py', 'C14', ['C14'], 'context process saved in memory, keeps running and mutates ctx, then loaded'),
 ('C14-2', '_unconfirmed/C14', 'patch2.diff', 'demo2_test.py', 'C14', ['C14'], 'two pids where one is a textual prefix of the other (1 / 12)'),
 ('C15-1', '_unconfirmed/C15', 'patch.diff', 'demo_test.py', 'C15', ['C15'], 'include/exclude rule with >= 3 path components'),
 ('C15-2', '_unconfirmed/C15', 'patch2.diff', 'demo2_test.py', 'C15', ['C15'], 'nested namespace exposed as a whole, then a port in it mutated on either side'),
 ('C16-1', '_unconfirmed/C16', 'patch.diff', 'demo_test.py', 'C16', ['C16'], 'PAUSE then PLAY message before the scheduled pause handler ran, or PLAY after an in-step PAUSE'),
 ('C17-1', '_unconfirmed/C17', 'patch.diff', 'demo_test.py', 'C17', ['C17'], 'launcher built with both load_context and a custom loader, then a continue task'),
 ('C18-1', '_unconfirmed/C18', 'patch.diff', 'demo_test.py', 'C18', ['C18'], 'async parent step launches a child and awaits while the child step is suspended as well'),
 ('C19-1', '_unconfirmed/C19', 'patch.diff', 'demo_test.py', 'C19', ['C19'], 'auto_persist member that is a tuple containing a mutable object, mutated after save'),
 ('C20-1', '_unconfirmed/C20', 'patch.diff', 'demo_test.py', 'C20', ['C20'], 'future resolving to a future whose inner level is cancelled'),
 ('C20-2', '_unconfirmed/C20', 'patch2.diff', 'demo2_test.py', 'C20', ['C20'], 'CancellableAction: cancel() followed by run()'),
 # round 2 (made against the repaired tree)
 ('C01-2', '_round2/C01', 'patch.diff', 'demo_test.py', 'C01', ['C02'], 'step in flight; kill() then fail(exc) between the same two callbacks (label stays EXCEPTED, state object and exception replaced)'),
 ('C01-3', '_round2/C01', 'patch2.diff', 'demo2_test.py', 'C01', ['C01'], 'kill() arriving after termination (directly, or through future().cancel() racing with a resume)'),
 ('C02-2', '_round2/C02', 'patch.diff', 'demo_test.py', 'C02', ['C02'], 'termination while paused with the driver parked on the paused future'),
 ('C02-3', '_round2/C02', 'patch2.diff', 'demo2_test.py', 'C02', ['C04', 'C03'], 'future cancelled while a step is in flight and that step fails; or a hook raising after the future was set'),
 ('C03-3', '_round2/C03', 'patch2.diff', 'demo2_test.py', 'C03', ['C03'], 'fault in an entered-stage hook of a terminal state (on_finished/on_killed/on_entered)'),
 ('C04-2', '_round2/C04', 'patch.diff', 'demo_test.py', 'C04', ['C04'], 'future().cancel() on a process restored from a checkpoint'),
 ('C04-3', '_round2/C04', 'patch2.diff', 'demo2_test.py', 'C04', ['C04'], 'a second request (play / kill / pause) between kill() and the moment the step yields'),
 ('C05-3', '_round2/C05', 'patch.diff', 'demo_test.py', 'C05', ['C05', 'C06'], 'pause() then resume() between the same two callbacks on a blocked waiting step'),
 ('C05-4', '_round2/C05', 'patch2.diff', 'demo2_test.py', 'C05', ['C05'], 'paused with the step coroutine parked, then play() immediately followed by pause()'),
 ('C06-1', '_round2/C06', 'patch.diff', 'demo_test.py', 'C06', ['C06'], 'pause() followed by resume(value) with no loop iteration in between'),
 ('C06-2', '_round2/C06', 'patch2.diff', 'demo2_test.py', 'C06', ['C06'], 'last awaited future completes and pause() is requested before its done-callback ran'),
 ('C07-3', '_round2/C07', 'patch.diff', 'demo_test.py', 'C07', ['C07'], 'process with its own status, paused with a message, saved and loaded at the paused point'),
 ('C08-2', '_round2/C08', 'patch2.diff', 'demo2_test.py', 'C08', ['C08', 'C07'], 'process started without inputs relying on port defaults, restored, then a step reads self.inputs'),
 ('C09-2', '_round2/C09', 'patch.diff', 'demo_test.py', 'C09', ['C08'], 'checkpoint inside an elif_/else_ body, restore (second independent occurrence of this mutation)'),
 ('C09-3', '_round2/C09', 'patch2.diff', 'demo2_test.py', 'C09', ['C09'], 'non-final step calls to_context() and returns a non-None value'),
 ('C10-2', '_round2/C10', 'patch.diff', 'demo_test.py', 'C10', ['C10'], '>= 2 items, a pause in effect (or requested in the same iteration), one item fails, then the last one succeeds before play()'),
 ('C10-3', '_round2/C10', 'patch2.diff', 'demo2_test.py', 'C10', ['C09'], 'return ToContext(...) from the last step of an if_/elif_/else_ body followed by more outline steps'),
 ('C16-2', '_round2/C16', 'patch.diff', 'demo_test.py', 'C16', ['C16'], 'PAUSE then PLAY in the same gap (second independent occurrence)'),
 ('C16-3', '_round2/C16', 'patch2.diff', 'demo2_test.py', 'C16', ['C02', 'C16'], 'process with communicator finishing with outputs that fail validation (refused FINISHED entry): never closed, still reachable'),
 # round 3 (made against the repaired tree at 8102b25)
 ('C11-3', '_round3/C11', 'patch.diff', 'demo_test.py', 'C11', ['C11'], 'dynamic typed namespace with a wrongly typed falsy value at any depth (third independent occurrence)'),
 ('C11-4', '_round3/C11', 'patch2.diff', 'demo2_test.py', 'C11', ['C11'], 'namespace with populate_defaults=False AND a default of its own, not supplied'),
 ('C12-2', '_round3/C12', 'patch.diff', 'demo_test.py', 'C12', ['C12'], 'typed dynamic output namespace, wrongly typed value emitted >= 2 levels below it through a not yet declared sub-namespace'),
 ('C12-3', '_round3/C12', 'patch2.diff', 'demo2_test.py', 'C12', ['C12'], 'rejected output for a namespaced port whose namespace holds no outputs yet: empty dicts stay behind'),
 ('C13-2', '_round3/C13', 'patch.diff', 'demo_test.py', 'C13', ['C13', 'C05', 'C06'], 'step returns Wait(f), pause requested during the transition into WAITING (hook/listener), then play(): f runs without resume'),
 ('C13-3', '_round3/C13', 'patch2.diff', 'demo2_test.py', 'C13', ['C13', 'C19'], 'Continue(f, mutable positional arg), plain Bundle checkpoint, live process mutates the argument, restore'),
 ('C15-3', '_round3/C15', 'patch.diff', 'demo_test.py', 'C15', ['C15'], 'include/exclude rule with >= 3 path components (second independent occurrence)'),
 ('C15-4', '_round3/C15', 'patch2.diff', 'demo2_test.py', 'C15', ['C15'], 'nested namespace no rule reaches into, then a port in it changed on either side (second independent occurrence)'),
 ('C17-2', '_round3/C17', 'patch.diff', 'demo_test.py', 'C17', ['C17'], 'launcher built with both load_context and a custom loader, then a continue task (second independent occurrence)'),
 ('C17-3', '_round3/C17', 'patch2.diff', 'demo2_test.py', 'C17', ['C17'], 'launch/continue without nowait of a process whose on_finished hook raises after super(): reply is the stale outputs'),
 ('C18-2', '_round3/C18', 'patch.diff', 'demo_test.py', 'C18', ['C18'], 'code of P starting in a context where P sits below another process on the stack (child calls P.call_soon / P.play())'),
 ('C18-3', '_round3/C18', 'patch2.diff', 'demo2_test.py', 'C18', ['C18'], 'async step that launches a child and keeps awaiting, the two interleave (shared stack list)'),
 ('C19-2', '_round3/C19', 'patch.diff', 'demo_test.py', 'C19', ['C19'], 'tuple member carrying a mutable, mutated after save (second independent occurrence)'),
 ('C19-3', '_round3/C19', 'patch2.diff', 'demo2_test.py', 'C19', ['C19', 'C17'], 'one loader-less LoadSaveContext reused for two loads, the first state recorded a custom loader'),
 ('C20-3', '_round3/C20', 'patch.diff', 'demo_test.py', 'C20', ['C20'], 'nesting depth >= 2, inner future cancelled before the outer level resolves to it'),
 ('C20-4', '_round3/C20', 'patch2.diff', 'demo2_test.py', 'C20', ['C20'], 'CancellableAction whose first run raised, then run() again'),
 # round 4 (made against the repaired tree at 4e8c357)
 ('C03-4', '_round4/C03', 'patch.diff', 'demo_test.py', 'C03', ['C03'], 'deferred pause (requested while a step is in flight) whose pause hook raises, then another pause (second independent occurrence)'),
 ('C03-5', '_round4/C03', 'patch2.diff', 'demo2_test.py', 'C03', ['C03', 'C02'], 'fault in a hook that runs after a terminal state was entered (on_finished/on_killed/on_terminated): EXCEPTED but never closed, paused stepper not released'),
 ('C04-4', '_round4/C04', 'patch.diff', 'demo_test.py', 'C04', ['C04'], 'future().cancel() on a process restored from a checkpoint (third independent occurrence)'),
 ('C04-5', '_round4/C04', 'patch2.diff', 'demo2_test.py', 'C04', ['C04', 'C05'], 'blocked WAITING step, resume() then kill()/pause() between the same two callbacks: InvalidStateError out of the call'),
 ('C05-5', '_round4/C05', 'patch.diff', 'demo_test.py', 'C05', ['C05'], 'status set, pause requested while a step is in flight, play() before the step boundary: status wiped, played event without paused'),
 ('C05-6', '_round4/C05', 'patch2.diff', 'demo2_test.py', 'C05', ['C05'], 'pause, play, pause all inside one step: the second pause is ignored'),
 ('C06-3', '_round4/C06', 'patch.diff', 'demo_test.py', 'C06', ['C06', 'C05'], 'pause(); resume(a); resume(b) in one gap on a blocked wait (first value lost), or pause from on_process_waiting + resume while paused (wake-up lost)'),
 ('C06-4', '_round4/C06', 'patch2.diff', 'demo2_test.py', 'C06', ['C06'], 'last awaited future completes and pause() is requested in the same gap, completion first'),
 ('C07-4', '_round4/C07', 'patch.diff', 'demo_test.py', 'C07', ['C07', 'C08'], 'checkpoint inside an elif_/else_ body whose shape differs from the first body (third independent occurrence)'),
 ('C07-5', '_round4/C07', 'patch2.diff', 'demo2_test.py', 'C07', ['C19', 'C07'], 'one LoadSaveContext object reused across load/save operations (second independent occurrence)'),
 ('C08-3', '_round4/C08', 'patch.diff', 'demo_test.py', 'C08', ['C08'], 'crash point inside an elif_/else_ body of >= 2 steps (fourth independent occurrence)'),
 ('C08-4', '_round4/C08', 'patch2.diff', 'demo2_test.py', 'C08', ['C08', 'C07'], 'while_ body of >= 2 steps, crash mid-body, the SAME in-memory bundle unbundled twice'),
 ('C09-4', '_round4/C09', 'patch.diff', 'demo_test.py', 'C09', ['C09'], 'value-returning step that completes a pass over a while_ body'),
 ('C09-5', '_round4/C09', 'patch2.diff', 'demo2_test.py', 'C09', ['C09'], 'two return_ instructions with different codes anywhere in the interpreter'),
 ('C10-4', '_round4/C10', 'patch.diff', 'demo_test.py', 'C10', ['C10'], 'pause, an awaited item fails while paused, then play'),
 ('C10-5', '_round4/C10', 'patch2.diff', 'demo2_test.py', 'C10', ['C10'], 'an awaited item that is already complete when WAITING is entered'),
 ('C14-3', '_round4/C14', 'patch.diff', 'demo_test.py', 'C14', ['C14'], 'in-memory persister: delete of an absent key while the process has exactly one checkpoint left'),
 ('C14-4', '_round4/C14', 'patch2.diff', 'demo2_test.py', 'C14', ['C14'], 'pickle persister: one process holding an untagged and a tagged checkpoint, then any listing'),
 ('C16-4', '_round4/C16', 'patch.diff', 'demo_test.py', 'C16', ['C16'], 'rpc pause then rpc play before the pause handler ran'),
 ('C16-5', '_round4/C16', 'patch2.diff', 'demo2_test.py', 'C16', ['C16'], 'same-label transitions (running->running of Continue / outline steps) with a communicator'),
 # round 5 (made against the repaired tree at 4e8c357)
 ('C14-5', '_round5/C14', 'patch.diff', 'demo_test.py', 'C14', ['C14'], 'pickle persister: two pids in a textual prefix relation (1 / 12), delete_process_checkpoints of the shorter one'),
 ('C14-6', '_round5/C14', 'patch2.diff', 'demo2_test.py', 'C14', ['C14'], 'in-memory persister: the same (pid, tag) saved twice with progress in between, then loaded'),
 ('C01-4', '_round5/C01', 'patch.diff', 'demo_test.py', 'C01', ['C01'], 'direct fail() after FINISHED or KILLED has been reached'),
 ('C01-5', '_round5/C01', 'patch2.diff', 'demo2_test.py', 'C01', ['C01', 'C04', 'C02'], 'kill() issued from an ENTERING_STATE/EXITING_STATE callback or on_finish override during the transition into FINISHED: carried out after FINISHED (-> EXCEPTED)'),
 ('C02-4', '_round5/C02', 'patch.diff', 'demo_test.py', 'C02', ['C02'], 'pause in effect with the stepping task parked, then termination other than kill (fail()): stepper never released'),
 ('C02-5', '_round5/C02', 'patch2.diff', 'demo2_test.py', 'C02', ['C02', 'C01'], 'kill() during a waiting step then fail() before the stepper resumes: EXCEPTED entered twice, exception replaced'),
 ('C12-4', '_round5/C12', 'patch.diff', 'demo_test.py', 'C12', ['C12'], 'typed dynamic output namespace, wrongly typed value >= 2 levels below through a dynamically created sub-namespace (second occurrence)'),
 ('C12-5', '_round5/C12', 'patch2.diff', 'demo2_test.py', 'C12', ['C12'], 'rejected output for a nested port whose namespace holds no outputs yet: empty dicts stay behind (second occurrence)'),
 ('C13-4', '_round5/C13', 'patch.diff', 'demo_test.py', 'C13', ['C13', 'C06'], 'Wait(f) resumed with a falsy value (0, empty string, False): f() instead of f(v)'),
 ('C13-5', '_round5/C13', 'patch2.diff', 'demo2_test.py', 'C13', ['C13', 'C07'], 'Continue(f, **k), checkpoint restored before the next step: kwargs lost (two cooperating edits)'),
 ('C17-4', '_round5/C17', 'patch.diff', 'demo_test.py', 'C17', ['C17'], 'create task with persist=True sent to a launcher without persister: accepted instead of rejected'),
 ('C17-5', '_round5/C17', 'patch2.diff', 'demo2_test.py', 'C17', ['C17', 'C14'], 'continue task for a tag never saved while an untagged checkpoint exists (in-memory persister)'),
 ('C18-4', '_round5/C18', 'patch.diff', 'demo_test.py', 'C18', ['C18'], 'nested execute(): inner step schedules a callback of the outer process (outer on the stack, not on top)'),
 ('C18-5', '_round5/C18', 'patch2.diff', 'demo2_test.py', 'C18', ['C18', 'C03'], 'hook raising out of a synchronous control request (on_playing from play()) made from another process step or plain code that catches it'),
 ('C19-4', '_round5/C19', 'patch.diff', 'demo_test.py', 'C19', ['C19'], 'plain member holding a nested mutable (list inside dict) mutated in place after save'),
 ('C19-5', '_round5/C19', 'patch2.diff', 'demo2_test.py', 'C19', ['C19'], 'per-save custom loader whose identifiers differ from module:name'),
]


def sh(cmd, cwd=W, env=None, timeout=900):
    e = dict(os.environ)
    if env:
        e.update(env)
    import signal
    proc = subprocess.Popen(cmd, shell=True, cwd=cwd, env=e, stdout=subprocess.PIPE, stderr=subprocess.PIPE, text=True, start_new_session=True)
    try:
        so, se = proc.communicate(timeout=timeout)
    except subprocess.TimeoutExpired:
        os.killpg(proc.pid, signal.SIGKILL)
        proc.communicate()
        return 124, 'TIMEOUT'

    class P:
        returncode, stdout, stderr = proc.returncode, so, se
    p = P
    return p.returncode, (p.stdout if p.stdout.strip() else p.stderr)


def find(srcs, name):
    for d in srcs.split(':'):
        p = os.path.join(V, 'seeded', d, name)
        if os.path.exists(p):
            return p
    raise FileNotFoundError(name)


def main():
    only = set(sys.argv[1:])
    head = sh('git -C /repo rev-parse --short HEAD', cwd='/')[1].strip()
    sh(f'git checkout -q --detach {head} && git checkout -q -- .')
    for sid, srcs, pname, dname, prop, checks, needs in SEEDS:
        if only and sid not in only:
            continue
        if not only and os.path.exists(os.path.join(V, 'seeded', sid, 'meta.json')):
            continue   # already done in an earlier run
        if not any(os.path.exists(os.path.join(V, 'seeded', d, pname)) for d in srcs.split(':')):
            continue   # staging copy gone: seed was dropped (see DESIGN section 7) or already filed
        patch = find(srcs.split(':')[0] if os.path.exists(os.path.join(V, 'seeded', srcs.split(':')[0], pname)) else srcs, pname)
        demo = find(srcs, dname)
        notes = None
        for d in srcs.split(':'):
            n = os.path.join(V, 'seeded', d, 'notes.md')
            if os.path.exists(n):
                notes = n
        sh('git checkout -q -- .')
        rc, out = sh(f'PYTHONPATH={W}/src /venv/bin/python -m pytest -q -p no:cacheprovider {demo}')
        demo_base = out.strip().split('\n')[-1]
        rc_apply, out = sh(f'patch -p1 -F3 -s --no-backup-if-mismatch -r /dev/null < {patch}')
        if rc_apply != 0:
            print(sid, 'PATCH DOES NOT APPLY', flush=True); sh('git checkout -q -- .'); continue
        diff = sh('git diff')[1]
        rc, out = sh(f'PYTHONPATH={W}/src /venv/bin/python -m pytest -q -p no:cacheprovider --ignore=tests/rmq')
        suite = out.strip().split('\n')[-1]
        rc, out = sh(f'PYTHONPATH={W}/src /venv/bin/python -m pytest -q -p no:cacheprovider {demo}')
        demo_patch = out.strip().split('\n')[-1]
        caught = {}
        for c in checks:
            rc, out = sh(f'./check {c} --tier quick --no-evidence', cwd=V, env={'PLUMPY_SRC': f'{W}/src'})
            kinds = sorted({l.split('kind=')[1].split(' ')[0] for l in out.split('\n') if l.startswith('  violation kind=')})
            caught[c] = dict(exit=rc, violation_kinds=kinds[:6])
        sh('git checkout -q -- .')
        ok = ('passed' in suite and 'failed' not in suite) and 'failed' in demo_patch and ('passed' in demo_base and 'failed' not in demo_base)
        detected = any(v['exit'] == 1 for v in caught.values())
        dst = os.path.join(V, 'seeded', sid)
        os.makedirs(dst, exist_ok=True)
        open(os.path.join(dst, 'patch.diff'), 'w').write(diff)
        shutil.copy(demo, os.path.join(dst, 'demo_test.py'))
        if notes:
            shutil.copy(notes, os.path.join(dst, 'agent_notes.md'))
        meta = dict(seed=sid, breaks_property=prop, needs_to_manifest=needs, made_against='repaired tree' if '_round' in srcs else 'pinned tree (ported to the repaired tree where the context changed)',
                    confirmed_on_repo_commit=head,
                    what_i_ran=dict(suite_with_change=suite, demo_with_change=demo_patch, demo_without_change=demo_base,
                                    commands=['cd <scratch worktree of /repo HEAD>; patch -p1 -F3 < patch.diff',
                                              'PYTHONPATH=<wt>/src /venv/bin/python -m pytest -q -p no:cacheprovider --ignore=tests/rmq',
                                              'PYTHONPATH=<wt>/src /venv/bin/python -m pytest -q -p no:cacheprovider demo_test.py   (with and without the change)',
                                              'PLUMPY_SRC=<wt>/src ./check <id> --tier quick --no-evidence']),
                    confirmed=ok, checks=caught, detected=detected)
        json.dump(meta, open(os.path.join(dst, 'meta.json'), 'w'), indent=1)
        print(sid, 'confirmed' if ok else 'NOT-CONFIRMED', 'DETECTED' if detected else 'MISSED', suite, '|', demo_patch, '|', demo_base, '|', {k: v['exit'] for k, v in caught.items()}, flush=True)


def recheck(only):
    """re-run every filed seed (seeded/<id>/patch.diff + demo_test.py + meta.json) against the current /repo HEAD"""
    head = sh('git -C /repo rev-parse --short HEAD', cwd='/')[1].strip()
    sh(f'git checkout -q --detach {head} && git checkout -q -- .')
    for sid in sorted(os.listdir(os.path.join(V, 'seeded'))):
        d = os.path.join(V, 'seeded', sid)
        mp = os.path.join(d, 'meta.json')
        if not os.path.exists(mp) or (only and sid not in only):
            continue
        meta = json.load(open(mp))
        if not only and meta.get('confirmed_on_repo_commit') == head:
            continue
        patch, demo = os.path.join(d, 'patch.diff'), os.path.join(d, 'demo_test.py')
        sh('git checkout -q -- .')
        demo_base = sh(f'PYTHONPATH={W}/src /venv/bin/python -m pytest -q -p no:cacheprovider {demo}')[1].strip().split('\n')[-1]
        rc_apply, out = sh(f'patch -p1 -F3 -s --no-backup-if-mismatch -r /dev/null < {patch}')
        if rc_apply != 0:
            print(sid, 'PATCH DOES NOT APPLY on', head, flush=True)
            sh('git checkout -q -- .')
            continue
        diff = sh('git diff')[1]
        suite = sh(f'PYTHONPATH={W}/src /venv/bin/python -m pytest -q -p no:cacheprovider --ignore=tests/rmq')[1].strip().split('\n')[-1]
        demo_patch = sh(f'PYTHONPATH={W}/src /venv/bin/python -m pytest -q -p no:cacheprovider {demo}')[1].strip().split('\n')[-1]
        caught = {}
        for c in meta['checks']:
            rc, out = sh(f'./check {c} --tier quick --no-evidence', cwd=V, env={'PLUMPY_SRC': f'{W}/src'})
            kinds = sorted({l.split('kind=')[1].split(' ')[0] for l in out.split('\n') if l.startswith('  violation kind=')})
            caught[c] = dict(exit=rc, violation_kinds=kinds[:6])
            if rc == 1 and not only:
                break   # one catching check is enough for the regression run; the others keep their recorded result
        sh('git checkout -q -- .')
        ok = ('passed' in suite and 'failed' not in suite) and 'failed' in demo_patch and ('passed' in demo_base and 'failed' not in demo_base)
        for c, v in meta['checks'].items():
            caught.setdefault(c, dict(v, note='not re-run in the regression pass'))
        detected = any(v['exit'] == 1 for v in caught.values())
        meta.update(confirmed_on_repo_commit=head, confirmed=ok, checks=caught, detected=detected)
        meta['what_i_ran'].update(suite_with_change=suite, demo_with_change=demo_patch, demo_without_change=demo_base)
        open(patch, 'w').write(diff)
        json.dump(meta, open(mp, 'w'), indent=1)
        print(sid, 'confirmed' if ok else 'NOT-CONFIRMED', 'DETECTED' if detected else 'MISSED', suite, '|', demo_patch, '|', demo_base, '|', {k: v['exit'] for k, v in caught.items()}, flush=True)


if __name__ == '__main__':
    if len(sys.argv) > 1 and sys.argv[1] == '--recheck':
        recheck(set(sys.argv[2:]))
    else:
        main()
