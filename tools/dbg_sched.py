"""debug helper: run one schedule natively and print observations.  usage: dbg_sched.py C02 sched2 '{json args}'"""
import json, sys
import vfw
from vfw import sched, programs, engine
import importlib
mod = importlib.import_module('props.' + sys.argv[1].lower())
fn = mod.HARNESSES[sys.argv[2]]
args = json.loads(sys.argv[3])
orig_go = sched.Run.go
def go(self):
    r = orig_go(self)
    p = self.proc
    print('state', p.state, 'paused', p.paused, 'exception', repr(p.exception()), 'future', p.future(), 'orig future', self.future)
    print('entered', [(str(a).split('.')[-1], str(b).split('.')[-1], t) for a,b,t in self.entered])
    for q in self.reqs:
        print(' req', q.describe(), 'applied', q.applied, 'tick', q.tick, 'ret', q.ret, 'exc', repr(q.exc), 'pre', {k:str(v) for k,v in q.pre.items()})
    print('idle', self.idle_actions, 'notes', self.notes)
    print('trace', programs.TRACE)
    print('task', self.task, 'loop errors', self.loop.errors)
    return r
sched.Run.go = go
print(engine.replay_native(fn, args))
