#!/bin/bash
# usage: tools/try_seed.sh <patch file> <prop> [<prop> ...]   -- applies the patch to /repo, runs quick checks, reverts.
# The revert runs from an EXIT trap (also on SIGPIPE/SIGTERM), so a killed pipeline cannot leave the patch applied.
P="$(realpath "$1")"; shift
cd /verif
if [ -n "$(git -C /repo status --porcelain)" ]; then echo "/repo not clean"; exit 2; fi
if ! (cd /repo && patch -p1 -F3 -s --no-backup-if-mismatch --dry-run < "$P" >/dev/null 2>&1); then echo "PATCH DOES NOT APPLY: $P"; exit 2; fi
trap 'git -C /repo checkout -- . ; git -C /repo status --short' EXIT
trap 'exit 130' INT TERM PIPE HUP
(cd /repo && patch -p1 -F3 -s --no-backup-if-mismatch < "$P")
OUT=$(mktemp)
for id in "$@"; do
  ./check "$id" --tier "${TIER:-quick}" --no-evidence > "$OUT" 2>&1; rc=$?
  grep -E "^\[|VIOLATION|HARNESS|INCONCLUSIVE|KNOWN|^  violation" "$OUT" | cut -c1-${COLS:-260} | head -${LINES_MAX:-8}
  echo "-> exit $rc for $id"
done
rm -f "$OUT"
