#!/bin/bash
# usage: tools/try_seed.sh <patch file> <prop> [<prop> ...]   -- applies the patch to /repo, runs quick checks, reverts
P="$1"; shift
cd /verif
if ! git -C /repo apply --check "$P" 2>/dev/null; then echo "PATCH DOES NOT APPLY: $P"; exit 2; fi
git -C /repo apply "$P"
for id in "$@"; do
  ./check "$id" --tier "${TIER:-quick}" --no-evidence 2>&1 | grep -E "^\[|VIOLATION|HARNESS|INCONCLUSIVE|KNOWN" | cut -c1-300 | head -${LINES_MAX:-8}
  echo "-> exit ${PIPESTATUS[0]} for $id"
done
git -C /repo checkout -- .
git -C /repo status --short
