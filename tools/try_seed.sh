#!/bin/bash
# usage: tools/try_seed.sh <patch file> <prop> [<prop> ...]   -- applies the patch to /repo, runs quick checks, reverts
P="$(realpath "$1")"; shift
cd /verif
if [ -n "$(git -C /repo status --porcelain)" ]; then echo "/repo not clean"; exit 2; fi
if ! (cd /repo && patch -p1 -F3 -s --no-backup-if-mismatch --dry-run < "$P" >/dev/null 2>&1); then echo "PATCH DOES NOT APPLY: $P"; exit 2; fi
(cd /repo && patch -p1 -F3 -s --no-backup-if-mismatch < "$P")
for id in "$@"; do
  ./check "$id" --tier "${TIER:-quick}" --no-evidence 2>&1 | grep -E "^\[|VIOLATION|HARNESS|INCONCLUSIVE|KNOWN|^  violation" | cut -c1-${COLS:-260} | head -${LINES_MAX:-8}
  echo "-> exit ${PIPESTATUS[0]} for $id"
done
git -C /repo checkout -- .
git -C /repo status --short
