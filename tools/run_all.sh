#!/bin/bash
# usage: tools/run_all.sh [quick|thorough]  -- runs every claimed check, prints a one-line summary each
T=${1:-quick}
cd /verif
for id in $(python3 -c "import json;print(' '.join(c['property_id'] for c in json.load(open('MANIFEST.json'))['checks']))"); do
  s=$(date +%s)
  out=$(./check $id --tier $T 2>&1); rc=$?
  e=$(( $(date +%s) - s ))
  echo "$id rc=$rc ${e}s $(echo "$out" | grep '^\[' | cut -c1-150) $(echo "$out" | grep -c '^VIOLATION') viol $(echo "$out" | grep -c '^INCONCLUSIVE') inconcl $(echo "$out" | grep -c '^KNOWN') known $(echo "$out" | grep -c '^HARNESS') harness-err"
done
