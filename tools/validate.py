#!/usr/bin/env python3
"""Validate MANIFEST.json and evidence files against the schemas (run with python3-vt)."""
import glob, json, sys
import jsonschema
ok = True
try:
    jsonschema.validate(json.load(open('/verif/MANIFEST.json')), json.load(open('/root/.vp/MANIFEST.schema.json')))
    print('MANIFEST ok')
except Exception as e:
    ok = False; print('MANIFEST INVALID', e)
sch = json.load(open('/root/.vp/EVIDENCE.schema.json'))
for f in sorted(glob.glob('/verif/evidence/*.json')):
    try:
        jsonschema.validate(json.load(open(f)), sch); print(f, 'ok')
    except Exception as e:
        ok = False; print(f, 'INVALID', str(e)[:300])
sys.exit(0 if ok else 1)
