"""Exhaustive path exploration of a harness function with CrossHair's library API.

Modelled on ``crosshair.core.explore_paths`` (no contract enforcement, so metaclass
``__call__`` of plumpy's StateMachineMeta runs normally).  Differences: every violation
is recorded with realised arguments and exploration continues; unknown/timeout paths are
counted; the z3 solver is instrumented to count queries and solver time.
"""
from __future__ import annotations

import inspect
import sys
import time
import traceback
from time import process_time
from typing import Any, Callable, Dict, List, Optional

import z3
from crosshair.condition_parser import condition_parser
from crosshair.copyext import CopyMode, deepcopyext
from crosshair.core import ExceptionFilter, NotDeterministic, Patched, deep_realize, gen_args
from crosshair.core_and_libs import NoTracing  # noqa: F401  (registers library models)
from crosshair.options import AnalysisKind
from crosshair.statespace import CallAnalysis, RootNode, StateSpace, StateSpaceContext, VerificationStatus
from crosshair.tracers import COMPOSITE_TRACER, ResumedTracing
from crosshair.util import IgnoreAttempt, UnexploredPath

# --- two performance adjustments of CrossHair's patch table (documented in DESIGN.md section 2.1) -------------
# (1) CrossHair patches weakref.ref.__call__ to run a full gc.collect() on every dereference (WeakSet callbacks
#     of asyncio/abc dereference weakrefs constantly: 38% of the run time).  We drop that patch, switch the
#     cyclic collector off while a path is traced and collect between paths (every 16 paths).  A resulting nondeterminism would surface as
#     NotDeterministic -> shard HARNESS-ERROR, never as a verdict.
# (2) format() of exactly-typed concrete atoms (str/int/bool/float/None/classes) skips deep_realize;
#     format() of a dict/list/tuple/set, or of a symbolic number, yields a placeholder text instead of realising
#     (plumpy formats such values only into error and log messages; no oracle reads message texts).
import gc as _gc
import weakref as _weakref

from crosshair import core as _chcore

_chcore._PATCH_REGISTRATIONS.pop(_weakref.ref.__call__, None)
_orig_format_patch = _chcore._PATCH_REGISTRATIONS.get(format)
ABSTRACT_FORMAT = {'symbolic_numbers': True}  # harnesses whose oracle depends on formatted numbers switch this off
_ATOMS = (str, int, bool, float, type(None))
import collections.abc as _abc  # noqa: E402

_CONTAINERS = (_abc.Mapping, _abc.Set, list, tuple)


def _fast_format(obj, format_spec=''):
    with NoTracing():
        if (type(obj) in _ATOMS or type(obj) is type) and type(format_spec) is str:
            return format(obj, format_spec)
        if ABSTRACT_FORMAT['symbolic_numbers'] and hasattr(type(obj), '__ch_realize__') and not hasattr(obj, '__ch_is_str__') \
                and type(obj).__name__ in ('SymbolicInt', 'SymbolicBool', 'SymbolicFloat', 'SymbolicBoundedInt'):
            # a symbolic number formatted into a (log/error) message: placeholder instead of one path per value
            return f'<{type(obj).__name__}>'
        if isinstance(obj, _CONTAINERS) and not isinstance(obj, (str, bytes)):
            # containers are only ever formatted into error/log messages by plumpy; realising every symbolic value
            # inside them would split the path per concrete value.  The message text is never part of an oracle.
            return f'<{type(obj).__name__} of {len(obj)} items>'
    return _orig_format_patch(obj, format_spec)


if _orig_format_patch is not None:
    _chcore._PATCH_REGISTRATIONS[format] = _fast_format

SOLVER = dict(calls=0, t=0.0)
_orig_check = z3.Solver.check


def _check(self, *a):
    t = time.perf_counter()
    try:
        return _orig_check(self, *a)
    finally:
        SOLVER['t'] += time.perf_counter() - t
        SOLVER['calls'] += 1


z3.Solver.check = _check


class Violation(Exception):
    """Raised by a harness when the property's assertion fails on the current path."""

    def __init__(self, kind: str, **facts: Any):
        super().__init__(kind)
        self.kind = kind
        self.facts = facts

    def __repr__(self) -> str:
        return f'Violation({self.kind!r}, {self.facts!r})'


def assume(cond: Any) -> None:
    """Precondition: paths where it is false are discarded (placed before the code they constrain)."""
    if not cond:
        raise IgnoreAttempt('assume')


class PathNotes:
    """Per-path scratch area the harness writes to (witnesses, non-triviality, sample)."""

    def __init__(self) -> None:
        self.reset()

    def reset(self) -> None:
        self.nontrivial = False
        self.witnesses: set = set()
        self.info: Dict[str, Any] = {}

    def witness(self, name: str) -> None:
        self.witnesses.add(name)


NOTES = PathNotes()


def _jsonable(x: Any, depth: int = 0) -> Any:
    if depth > 6:
        return repr(x)
    if x is None or isinstance(x, (bool, int, float, str)):
        return x
    if isinstance(x, (list, tuple, set, frozenset)):
        return [_jsonable(i, depth + 1) for i in x]
    if isinstance(x, dict):
        return {str(k): _jsonable(v, depth + 1) for k, v in x.items()}
    return repr(x)


def explore(
    fn: Callable[..., Any],
    fixed: Optional[Dict[str, Any]] = None,
    budget_s: float = 120.0,
    per_path_s: float = 20.0,
    max_samples: int = 6,
    max_violations: int = 400,
) -> Dict[str, Any]:
    """Explore all paths of ``fn(**symbolic, **fixed)`` until the search tree is exhausted."""
    fixed = dict(fixed or {})
    full_sig = inspect.signature(fn, eval_str=True)
    sig = full_sig.replace(parameters=[p for n, p in full_sig.parameters.items() if n not in fixed])
    root = RootNode()
    st: Dict[str, Any] = dict(
        paths=0, confirmed=0, ignored=0, unknown=0, exhausted=False, nontrivial=0, violations=[], samples=[],
        witnesses={}, unknown_reasons=[],
    )
    s0 = dict(SOLVER)
    start = process_time()
    w0 = time.time()
    _gc.disable()
    with condition_parser([AnalysisKind.PEP316]), Patched():
        while process_time() - start < budget_s:
            t = process_time()
            space = StateSpace(execution_deadline=t + per_path_s, model_check_timeout=per_path_s / 2, search_root=root)
            NOTES.reset()
            if st['paths'] % 16 == 0:
                _gc.collect()  # cyclic GC only here, between paths: never in the middle of a traced path
            with COMPOSITE_TRACER, NoTracing(), StateSpaceContext(space):
                try:
                    pre_args = gen_args(sig)
                    args = deepcopyext(pre_args, CopyMode.REGULAR, {})
                    with ExceptionFilter() as ef, ResumedTracing():
                        fn(**dict(args.arguments), **fixed)
                    if ef.ignore:
                        status = ef.analysis.verification_status
                        st['ignored' if status is None else 'unknown'] += 1
                    elif ef.user_exc is not None:
                        e, tb = ef.user_exc
                        if isinstance(e, NotDeterministic):
                            raise e
                        with ResumedTracing():
                            space.detach_path(e)
                        if len(st['violations']) < max_violations:
                            rargs = deep_realize(dict(pre_args.arguments))
                            rargs.update(fixed)
                            if isinstance(e, Violation):
                                kind, facts = e.kind, deep_realize(e.facts)
                            else:
                                kind = 'unexpected:' + type(e).__name__
                                facts = {'error': repr(e)[:300], 'tb': ''.join(tb.format()[-4:])[-900:]}
                            st['violations'].append(dict(args=_jsonable(rargs), kind=kind, facts=_jsonable(facts)))
                        status = VerificationStatus.REFUTED
                    else:
                        status = VerificationStatus.CONFIRMED
                        st['confirmed'] += 1
                        if NOTES.nontrivial:
                            st['nontrivial'] += 1
                        for w in NOTES.witnesses:
                            st['witnesses'][w] = st['witnesses'].get(w, 0) + 1
                        if len(st['samples']) < max_samples and (NOTES.nontrivial or st['paths'] < 2):
                            with ResumedTracing():
                                space.detach_path()  # realising below must not grow the search tree
                            rargs = deep_realize(dict(pre_args.arguments))
                            rargs.update(fixed)
                            st['samples'].append(dict(args=_jsonable(rargs), info=_jsonable(deep_realize(NOTES.info))))
                except IgnoreAttempt:
                    status = None
                    st['ignored'] += 1
                except UnexploredPath as e:
                    status = VerificationStatus.UNKNOWN
                    st['unknown'] += 1
                    if len(st['unknown_reasons']) < 5:
                        st['unknown_reasons'].append(repr(e)[:200])
                _a, exhausted = space.bubble_status(CallAnalysis(status))
            st['paths'] += 1
            if exhausted:
                st['exhausted'] = True
                break
    _gc.enable()
    st['wall_s'] = round(time.time() - w0, 3)
    st['cpu_s'] = round(process_time() - start, 3)
    st['solver_queries'] = SOLVER['calls'] - s0['calls']
    st['solver_time_s'] = round(SOLVER['t'] - s0['t'], 3)
    return st


def replay_native(fn: Callable[..., Any], args: Dict[str, Any]) -> Dict[str, Any]:
    """Run the harness on concrete arguments in plain CPython (no tracer, no patches)."""
    try:
        fn(**args)
    except IgnoreAttempt:
        return dict(outcome='assume_rejected')
    except Violation as v:
        return dict(outcome='violation', kind=v.kind, facts=_jsonable(v.facts))
    except Exception as e:  # noqa: BLE001
        return dict(outcome='violation', kind='unexpected:' + type(e).__name__,
                    facts={'error': repr(e)[:300], 'tb': traceback.format_exc()[-900:]})
    return dict(outcome='ok')


def profile_functions(fn: Callable[..., Any], args_list: List[Dict[str, Any]], src_root: str) -> List[str]:
    """Native profiled re-run of sample paths: which plumpy functions were executed."""
    seen = set()

    def prof(frame, event, arg):
        if event == 'call':
            code = frame.f_code
            if code.co_filename.startswith(src_root):
                mod = code.co_filename[len(src_root):].lstrip('/').replace('/', '.')
                if mod.endswith('.py'):
                    mod = mod[:-3]
                seen.add(f'{mod}:{code.co_qualname}')

    for a in args_list:
        sys.setprofile(prof)
        try:
            fn(**a)
        except BaseException:  # noqa: BLE001
            pass
        finally:
            sys.setprofile(None)
    return sorted(seen)
