"""Shard runner, known-findings matching, replay and evidence writing."""
from __future__ import annotations

import argparse
import hashlib
import importlib
import json
import multiprocessing as mp
import os
import random
import sys
import time
import traceback
from typing import Any, Dict, List

import vfw

EXIT_OK, EXIT_VIOLATION, EXIT_HARNESS = 0, 1, 3
NPROC = int(os.environ.get('VFW_NPROC', '16'))


def _load(prop: str):
    return importlib.import_module(f'props.{prop.lower()}')


def run_shard(job: Dict[str, Any]) -> Dict[str, Any]:
    """Worker: one independent exhaustive exploration (own search tree, own process)."""
    t0 = time.time()
    try:
        from vfw import engine

        mod = _load(job['prop'])
        fn = mod.HARNESSES[job['harness']]
        st = engine.explore(fn, fixed=job.get('fixed'), budget_s=job['budget_s'],
                            per_path_s=job.get('per_path_s', 20.0), max_samples=job.get('max_samples', 4))
        # replay every counterexample natively (plain CPython) before anything is reported
        for v in st['violations']:
            r = engine.replay_native(fn, v['args'])
            v['replay'] = r
            v['reproduced'] = r.get('outcome') == 'violation' and r.get('kind') == v['kind']
        st['functions'] = engine.profile_functions(fn, [s['args'] for s in st['samples']], vfw.PLUMPY_SRC)
        st['error'] = None
    except BaseException as e:  # noqa: BLE001
        st = dict(error=f'{type(e).__name__}: {e}\n{traceback.format_exc()[-1500:]}', paths=0, confirmed=0, ignored=0,
                  unknown=0, exhausted=False, nontrivial=0, violations=[], samples=[], witnesses={}, functions=[],
                  solver_queries=0, solver_time_s=0.0, cpu_s=0.0, unknown_reasons=[])
    st['shard'] = job['name']
    st['harness'] = job['harness']
    st['fixed'] = job.get('fixed') or {}
    st['shard_wall_s'] = round(time.time() - t0, 2)
    return st


def load_known(prop: str) -> List[Dict[str, Any]]:
    path = os.path.join(vfw.VERIF_DIR, 'known_findings.json')
    if not os.path.exists(path):
        return []
    data = json.load(open(path))
    return [f for f in data.get('findings', []) if f.get('property') == prop]


def match_known(v: Dict[str, Any], known: List[Dict[str, Any]]):
    for k in known:
        m = k['match']
        if m.get('kind') != v['kind']:
            continue
        if m.get('harness') not in (None, v.get('harness')):
            continue
        facts = v.get('facts') or {}
        if all(facts.get(fk) == fv for fk, fv in (m.get('facts') or {}).items()):
            return k
    return None


def write_replay(prop: str, v: Dict[str, Any]) -> str:
    d = os.path.join(vfw.VERIF_DIR, 'replays', prop)
    os.makedirs(d, exist_ok=True)
    blob = dict(property=prop, harness=v['harness'], args=v['args'], kind=v['kind'], facts=v['facts'])
    sha = hashlib.sha1(json.dumps(blob, sort_keys=True).encode()).hexdigest()[:12]
    path = os.path.join(d, f'{sha}.json')
    json.dump(blob, open(path, 'w'), indent=1, sort_keys=True)
    return path


def do_replay(prop: str, path: str) -> int:
    from vfw import engine

    blob = json.load(open(path))
    mod = _load(prop)
    fn = mod.HARNESSES[blob['harness']]
    r = engine.replay_native(fn, blob['args'])
    print(json.dumps(dict(expected=blob['kind'], got=r), indent=1))
    if r.get('outcome') == 'violation' and r.get('kind') == blob['kind']:
        print(f'VIOLATION property={prop} replay={path}')
        return EXIT_VIOLATION
    print('replay did not reproduce the recorded violation')
    return EXIT_OK


def main(argv=None) -> int:
    ap = argparse.ArgumentParser()
    ap.add_argument('prop')
    ap.add_argument('--tier', default=os.environ.get('VERIF_TIER', 'quick'), choices=['quick', 'thorough'])
    ap.add_argument('--replay')
    ap.add_argument('--only', help='run only shards whose name contains this string (development)')
    ap.add_argument('--no-evidence', action='store_true')
    a = ap.parse_args(argv)
    prop = a.prop.upper()
    if a.replay:
        return do_replay(prop, a.replay)

    seed = int(os.environ.get('VERIF_SEED', '0') or 0)
    t0 = time.time()
    mod = _load(prop)
    jobs = mod.shards(a.tier)
    for j in jobs:
        j['prop'] = prop
    if a.only:
        jobs = [j for j in jobs if a.only in j['name']]
    random.Random(seed).shuffle(jobs)
    jobs.sort(key=lambda j: -j['budget_s'])  # long shards first

    extra = None
    if hasattr(mod, 'extra_obligations') and not a.only:
        extra = mod.extra_obligations(a.tier)

    ctx = mp.get_context('spawn')
    with ctx.Pool(min(NPROC, max(1, len(jobs))), maxtasksperchild=1) as pool:
        results = pool.map(run_shard, jobs, chunksize=1)

    known = load_known(prop)
    harness_errors: List[str] = []
    new_violations: List[Dict[str, Any]] = []
    known_seen: Dict[str, Dict[str, Any]] = {}
    inconclusive: List[str] = []
    tot = dict(paths=0, confirmed=0, ignored=0, unknown=0, nontrivial=0, solver_queries=0, solver_time_s=0.0, cpu_s=0.0)
    witnesses: Dict[str, int] = {}
    functions: set = set()
    samples: List[Any] = []
    nviol = 0
    for r in results:
        if r['error']:
            harness_errors.append(f"shard {r['shard']}: {r['error']}")
            continue
        for k in tot:
            tot[k] += r.get(k, 0)
        for w, n in r['witnesses'].items():
            witnesses[w] = witnesses.get(w, 0) + n
        functions.update(r['functions'])
        for s in r['samples'][:2]:
            if len(samples) < 12:
                samples.append(dict(shard=r['shard'], **s))
        if not r['exhausted'] or r['unknown']:
            inconclusive.append(r['shard'])
        for v in r['violations']:
            nviol += 1
            v['harness'] = r['harness']
            v['shard'] = r['shard']
            if not v['reproduced']:
                harness_errors.append(f"shard {r['shard']}: counterexample does not replay natively: "
                                      f"{v['kind']} args={v['args']} replay={v['replay']}")
                continue
            k = match_known(v, known)
            if k is not None:
                e = known_seen.setdefault(k['id'], dict(finding=k, count=0, example=v))
                e['count'] += 1
            else:
                new_violations.append(v)

    # vacuity guard
    required = list(getattr(mod, 'REQUIRED_WITNESSES', {}).get(a.tier, [])) if isinstance(
        getattr(mod, 'REQUIRED_WITNESSES', None), dict) else list(getattr(mod, 'REQUIRED_WITNESSES', []))
    if not a.only and not harness_errors:
        missing = [w for w in required if not witnesses.get(w)]
        if missing:
            harness_errors.append(f'vacuity guard: reachability witnesses never observed: {missing}')
        if tot['nontrivial'] < 2 and not nviol:
            harness_errors.append('vacuity guard: fewer than 2 non-trivial paths')
    if extra is not None and not extra.get('ok', False):
        if extra.get('violation'):
            new_violations.append(dict(kind=extra['violation']['kind'], facts=extra['violation'].get('facts', {}),
                                       args=extra['violation'].get('args', {}), harness=extra['violation'].get('harness', 'extra'),
                                       shard='extra', reproduced=True))
        else:
            harness_errors.append(f"extra obligations failed: {extra.get('error')}")

    exhaustive = not inconclusive and not harness_errors
    wall = round(time.time() - t0, 2)

    # stdout report
    print(f'[{prop}] tier={a.tier} shards={len(results)} paths={tot["paths"]} confirmed={tot["confirmed"]} '
          f'assume_rejected={tot["ignored"]} unknown={tot["unknown"]} nontrivial={tot["nontrivial"]} '
          f'solver_queries={tot["solver_queries"]} solver_time={tot["solver_time_s"]:.1f}s wall={wall}s')
    for sh in inconclusive:
        print(f'INCONCLUSIVE shard={sh} (budget exhausted or unknown paths; not a pass, not an alarm)')
    for kid, e in sorted(known_seen.items()):
        print(f"KNOWN-FINDING: property={prop} {e['finding']['what']} [{kid}; {e['count']} paths]")
    rc = EXIT_OK
    replay_paths = []
    if new_violations:
        rc = EXIT_VIOLATION
        groups: Dict[str, Dict[str, Any]] = {}
        for v in new_violations:
            key = v['kind'] + '|' + json.dumps(v.get('facts', {}), sort_keys=True)[:200]
            groups.setdefault(key, v)
        for key, v in list(groups.items())[:20]:
            p = write_replay(prop, v)
            replay_paths.append(p)
            print(f'  violation kind={v["kind"]} facts={json.dumps(v.get("facts", {}))[:400]} args={json.dumps(v["args"])[:300]}')
            print(f'VIOLATION property={prop} replay={p}')
    if harness_errors:
        for h in harness_errors[:10]:
            print('HARNESS-ERROR', h[:1500])
        if rc == EXIT_OK:
            rc = EXIT_HARNESS

    if not a.no_evidence and not a.only:
        bounds = getattr(mod, 'BOUNDS', {}).get(a.tier, {})
        ev = dict(
            property_id=prop, tier=a.tier, seed=seed, level=getattr(mod, 'LEVEL', 'exploration'),
            coverage=dict(
                evaluations=tot['paths'], distinct_nontrivial=tot['nontrivial'],
                rule=getattr(mod, 'RULE', ''), samples=samples, exhaustive=exhaustive, shards=len(results),
                shards_inconclusive=inconclusive, confirmed_paths=tot['confirmed'], unknown=tot['unknown'],
                assume_rejected=tot['ignored'], solver_queries=tot['solver_queries'],
                solver_time_s=round(tot['solver_time_s'], 2), cpu_s=round(tot['cpu_s'], 1),
                functions_executed=sorted(functions), witnesses=witnesses, bounds=bounds,
                outside_bounds=getattr(mod, 'OUTSIDE', []), solver_role=getattr(mod, 'SOLVER_ROLE', ''),
                explanation=getattr(mod, 'EXPLANATION', ''),
                per_shard=[dict(shard=r['shard'], paths=r['paths'], exhausted=r['exhausted'], unknown=r['unknown'],
                                violations=len(r['violations']), cpu_s=r.get('cpu_s')) for r in results],
                extra_obligations=extra,
            ),
            assumptions=getattr(mod, 'ASSUMPTIONS', []) + COMMON_ASSUMPTIONS,
            wall_s=wall, violations=len(new_violations),
            known_findings_observed=[dict(id=k, paths=e['count'], what=e['finding']['what'],
                                          example_args=e['example']['args']) for k, e in sorted(known_seen.items())],
            replay_files=replay_paths, harness_errors=harness_errors[:10],
        )
        os.makedirs(os.path.join(vfw.VERIF_DIR, 'evidence'), exist_ok=True)
        json.dump(ev, open(os.path.join(vfw.VERIF_DIR, 'evidence', f'{prop}.json'), 'w'), indent=1, default=str)
        if a.tier == 'thorough':
            # keep the record of the deepest run next to the per-run evidence file (which the next quick run overwrites)
            os.makedirs(os.path.join(vfw.VERIF_DIR, 'evidence', 'thorough'), exist_ok=True)
            json.dump(ev, open(os.path.join(vfw.VERIF_DIR, 'evidence', 'thorough', f'{prop}.json'), 'w'), indent=1, default=str)
    return rc


COMMON_ASSUMPTIONS = [
    'event loop = vfw.steploop.StepLoop: FIFO ready queue, one callback per step, no timers; requests act only between callbacks or synchronously inside one',
    'logging disabled; PYTHONHASHSEED=0; one listener object per process',
    'trusted base: CPython 3.12, CrossHair 0.0.110 models of builtins, z3 5.1; verdict = search tree exhausted AND zero unknown paths',
    'every counterexample is replayed natively (no tracer) before it is reported',
]

if __name__ == '__main__':
    sys.exit(main())
