"""Outline family for WorkChains: grammar enumeration, class generation, reference interpreter.

Descriptor grammar (pure data):
    block  ::= [instr, ...]                       (non-empty)
    instr  ::= ('s',)                              a step
             | ('if', [block, ...], else_block|None)   if_/elif_.../else_ ; one predicate per listed block
             | ('while', block)
             | ('ret', code|None)
Steps and predicates are numbered in order of appearance (s0.., p0..) and become methods of the generated
class.  At run time every call is appended to TRACE and takes its return value from ENV['step'] / ENV['pred'].
"""
from __future__ import annotations

import itertools
import sys
from typing import Any, Dict, List, Tuple

import vfw  # noqa: F401
import plumpy
from plumpy.workchains import WorkChain, if_, return_, while_

TRACE: List[tuple] = []
ENV: Dict[str, Any] = {}


def _mk_step(i):
    def fn(self):
        TRACE.append(('s', i))
        return ENV['step'](self, i)
    fn.__name__ = fn.__qualname__ = f's{i}'
    return fn


def _mk_pred(i):
    def fn(self):
        TRACE.append(('p', i))
        return ENV['pred'](self, i)
    fn.__name__ = fn.__qualname__ = f'p{i}'
    return fn


def count(desc) -> Tuple[int, int]:
    """(number of steps, number of predicates)"""
    ns = npd = 0
    for ins in desc:
        if ins[0] == 's':
            ns += 1
        elif ins[0] == 'if':
            for b in ins[1]:
                npd += 1
                a, c = count(b)
                ns += a
                npd += c
            if ins[2] is not None:
                a, c = count(ins[2])
                ns += a
                npd += c
        elif ins[0] == 'while':
            npd += 1
            a, c = count(ins[1])
            ns += a
            npd += c
    return ns, npd


def size(desc) -> int:
    n = 0
    for ins in desc:
        n += 1
        if ins[0] == 'if':
            n += sum(size(b) for b in ins[1]) + (size(ins[2]) if ins[2] is not None else 0) + len(ins[1]) - 1
        elif ins[0] == 'while':
            n += size(ins[1])
    return n


def depth(desc) -> int:
    d = 0
    for ins in desc:
        if ins[0] == 'if':
            d = max(d, 1 + max([depth(b) for b in ins[1]] + ([depth(ins[2])] if ins[2] is not None else [0])))
        elif ins[0] == 'while':
            d = max(d, 1 + depth(ins[1]))
    return d


def _build_block(cls, desc, ctr):
    out = []
    for ins in desc:
        if ins[0] == 's':
            out.append(getattr(cls, f's{ctr[0]}'))
            ctr[0] += 1
        elif ins[0] == 'ret':
            out.append(return_ if ins[1] is None else return_(ins[1]))
        elif ins[0] == 'while':
            p = getattr(cls, f'p{ctr[1]}')
            ctr[1] += 1
            out.append(while_(p)(*_build_block(cls, ins[1], ctr)))
        elif ins[0] == 'if':
            node = None
            for k, b in enumerate(ins[1]):
                p = getattr(cls, f'p{ctr[1]}')
                ctr[1] += 1
                body = _build_block(cls, b, ctr)
                if k == 0:
                    node = if_(p)(*body)
                else:
                    node = node.elif_(p)(*body)
            if ins[2] is not None:
                node = node.else_(*_build_block(cls, ins[2], ctr))
            out.append(node)
    return out


_CLASSES: Dict[str, Any] = {}


def make_class(name: str, desc):
    """Build (once) the WorkChain subclass for an outline descriptor; module-level, hence loadable by name."""
    if name in _CLASSES:
        return _CLASSES[name]
    ns_, np_ = count(desc)
    ns: Dict[str, Any] = {'__module__': __name__}
    for i in range(ns_):
        ns[f's{i}'] = _mk_step(i)
    for i in range(np_):
        ns[f'p{i}'] = _mk_pred(i)

    def define(cls, spec):
        super(klass, cls).define(spec)
        spec.input('d', valid_type=int, default=1)   # only present through its default when no inputs are passed
        spec.outline(*_build_block(cls, desc, [0, 0]))

    ns['define'] = classmethod(define)
    klass = type(name, (WorkChain,), ns)
    klass.__qualname__ = name
    klass.DESC = desc
    setattr(sys.modules[__name__], name, klass)
    _CLASSES[name] = klass
    return klass


# ----------------------------------------------------------------------------------------------
# reference interpreter, written from the property statement (not from the code under test)
class _Stop(Exception):
    def __init__(self, value):
        self.value = value


def interpret(desc, step_value, pred_value):
    """returns (trace, result).  step_value(i) / pred_value(i) yield the values in call order."""
    trace: List[tuple] = []
    ctr = [0, 0]
    state = {'last': None, 'ended_by_predicate': False}

    def is_ctx(v):
        return isinstance(v, dict)

    def run_block(block, live):
        """live=False: only advance the numbering (the block is not executed)"""
        for ins in block:
            if ins[0] == 's':
                i = ctr[0]
                ctr[0] += 1
                if live:
                    trace.append(('s', i))
                    v = step_value(i)
                    state['last'] = v
                    state['ended_by_predicate'] = False
                    if v is not None and not is_ctx(v):
                        raise _Stop(v)
            elif ins[0] == 'ret':
                if live:
                    raise _Stop(ins[1])
            elif ins[0] == 'while':
                j = ctr[1]
                ctr[1] += 1
                save = list(ctr)
                if live:
                    while True:
                        trace.append(('p', j))
                        if not pred_value(j):
                            state['ended_by_predicate'] = True
                            break
                        ctr[0], ctr[1] = save
                        run_block(ins[1], True)
                ctr[0], ctr[1] = save
                run_block(ins[1], False)
            elif ins[0] == 'if':
                taken = False
                for b in ins[1]:
                    j = ctr[1]
                    ctr[1] += 1
                    take = False
                    if live and not taken:
                        trace.append(('p', j))
                        take = bool(pred_value(j))
                        if not take:
                            state['ended_by_predicate'] = True
                    run_block(b, take)
                    taken = taken or take
                if ins[2] is not None:
                    run_block(ins[2], live and not taken)

    try:
        run_block(desc, True)
    except _Stop as s:
        return trace, s.value, False
    return trace, state['last'], state['ended_by_predicate']


# ----------------------------------------------------------------------------------------------
def enumerate_outlines(max_size: int, max_depth: int) -> List[Any]:
    """all outline descriptors with at most max_size instructions (conditionals and each extra branch count 1) and
    nesting depth <= max_depth; blocks non-empty; return_ codes from {None, 7}; deterministic order"""
    from functools import lru_cache

    @lru_cache(maxsize=None)
    def blocks(n, d):
        """tuple-encoded blocks of exactly size n, depth <= d"""
        if n <= 0:
            return ()
        res = []
        # first instruction of size k, rest of size n-k (possibly empty)
        for k in range(1, n + 1):
            firsts = instrs(k, d)
            rests = blocks(n - k, d) if n - k > 0 else ((),)
            for f in firsts:
                for r in rests:
                    res.append((f,) + r)
        return tuple(res)

    @lru_cache(maxsize=None)
    def instrs(k, d):
        res = []
        if k == 1:
            res.append(('s',))
            res.append(('ret', None))
            res.append(('ret', 7))
        if d > 0 and k >= 2:
            # while: 1 + body
            for b in blocks(k - 1, d - 1):
                res.append(('while', b))
            # if with m branches and optional else: 1 + sum(bodies) + (m-1) [+ else body]
            for m in (1, 2):
                rest = k - 1 - (m - 1)
                if rest < m:
                    continue
                for parts in _compositions(rest, m):
                    for combo in itertools.product(*[blocks(p, d - 1) for p in parts]):
                        res.append(('if', tuple(combo), None))
                for parts in _compositions(rest, m + 1):
                    for combo in itertools.product(*[blocks(p, d - 1) for p in parts]):
                        res.append(('if', tuple(combo[:-1]), combo[-1]))
        return tuple(res)

    out = []
    for n in range(1, max_size + 1):
        out.extend(blocks(n, max_depth))
    # drop outlines with unreachable code directly after a return_ inside the same block (still legal, but noise)
    return [o for o in out if not _dead_after_return(o)]


def _compositions(n, m):
    if m == 1:
        if n >= 1:
            yield (n,)
        return
    for first in range(1, n - m + 2):
        for rest in _compositions(n - first, m - 1):
            yield (first,) + rest


def _dead_after_return(block) -> bool:
    for i, ins in enumerate(block):
        if ins[0] == 'ret' and i != len(block) - 1:
            return True
        if ins[0] == 'while' and _dead_after_return(ins[1]):
            return True
        if ins[0] == 'if' and (any(_dead_after_return(b) for b in ins[1]) or (ins[2] is not None and _dead_after_return(ins[2]))):
            return True
    return False


HANDPICKED = [
    # nesting of loops inside branches, early returns inside loops, empty-branch fall-through
    (('s',), ('if', ((('s',), ('while', (('s',), ('if', ((('ret', 7),),), None)))),), (('s',),)), ('s',)),
    (('while', (('if', ((('s',),), (('ret', None),)), (('s',), ('s',))),)), ('s',)),
    (('if', ((('s',),),), None), ('if', ((('s',),), (('s',),)), None), ('s',)),
    (('while', (('while', (('s',),)), ('s',))),),
    (('s',), ('while', (('s',), ('if', ((('ret', 3),),), None), ('s',))), ('ret', 5)),
    (('if', ((('while', (('s',),)),), (('s',), ('s',))), (('ret', 1),)),),
]
