"""Independent reference model of port-namespace acceptance and default population.

Written from the documentation of plumpy.ports (docstrings of Port, InputPort, PortNamespace) and the statement
of properties C11/C12; it never calls the code under test.  Specs are plain data:

    port  = dict(kind='port', required=bool, valid_type=None|type|tuple, default=NODEF|('plain', v)|('callable', v),
                 validator=None|callable(value)->None|str)
    space = dict(kind='ns', required=bool, dynamic=bool, valid_type=None|type, populate_defaults=bool,
                 default=NODEF|('plain', dict), validator=None|callable(dict)->None|str, ports={name: port|space})
"""
from __future__ import annotations

from typing import Any, Dict, Tuple

NODEF = ('nodef',)
ABSENT = ('absent',)


class Reject(Exception):
    def __init__(self, where: str, why: str):
        super().__init__(f'{where}: {why}')
        self.where, self.why = where, why


def effective_required(port) -> bool:
    """a port with a default is not required (InputPort.required_override)"""
    if port['kind'] == 'port' and port.get('default', NODEF) is not NODEF:
        return False
    return port['required']


def complete(space, values: Dict[str, Any]) -> Dict[str, Any]:
    """inputs completed with exactly the declared defaults (callable defaults evaluated; namespaces marked
    populate_defaults=False left out unless supplied).  `values` is a plain nested dict."""
    out = dict(values)
    for name, port in space['ports'].items():
        if name not in values and port['kind'] == 'ns' and not port['populate_defaults']:
            continue
        if name not in values:
            d = port.get('default', NODEF)
            if d is not NODEF:
                v = d[1]() if d[0] == 'callable' else d[1]
            elif port['kind'] == 'ns' and port['ports']:
                v = {}
            else:
                continue
        else:
            v = values[name]
        if port['kind'] == 'ns':
            out[name] = complete(port, dict(v))
        else:
            out[name] = v
    return out


def _check_type(value, valid_type) -> bool:
    return valid_type is None or isinstance(value, valid_type)


def validate_port(port, value, where: str) -> None:
    if value is ABSENT:
        if effective_required(port):
            raise Reject(where, 'required value missing')
        return
    if not _check_type(value, port['valid_type']):
        raise Reject(where, 'wrong type')
    v = port.get('validator')
    if v is not None:
        msg = v(value)
        if msg is not None:
            raise Reject(where, 'validator: ' + msg)


def validate_dynamic(space, extra, where: str) -> None:
    """undeclared keys: only in dynamic namespaces; values (at any nesting) of the namespace's type"""
    if extra and not space['dynamic']:
        raise Reject(where, 'undeclared keys in a non-dynamic namespace')
    if space['valid_type'] is None:
        return

    def rec(v, w):
        if isinstance(v, dict):
            for k, x in v.items():
                rec(x, w + '.' + k)
        elif not isinstance(v, space['valid_type']):
            raise Reject(w, 'dynamic value of wrong type')

    rec(extra, where)


def validate_space(space, values, where: str = '') -> None:
    """values: completed nested dict, or ABSENT"""
    if values is ABSENT or not values:
        values = {}
    if not values and not space['required']:
        return
    remaining = dict(values)
    for name, port in space['ports'].items():
        v = remaining.pop(name, ABSENT)
        w = (where + '.' if where else '') + name
        if port['kind'] == 'ns':
            validate_space(port, v, w)
        else:
            validate_port(port, v, w)
    validate_dynamic(space, remaining, where)
    v = space.get('validator')
    if v is not None:
        msg = v(dict(values))
        if msg is not None:
            raise Reject(where, 'namespace validator: ' + msg)


def accept(space, values: Dict[str, Any]) -> Dict[str, Any]:
    """returns the completed inputs or raises Reject"""
    done = complete(space, values)
    validate_space(space, done)
    return done


def plain(x):
    """nested mapping -> nested plain dict (for comparisons)"""
    from collections.abc import Mapping
    if isinstance(x, Mapping):
        return {k: plain(v) for k, v in x.items()}
    return x
