"""Shared driving helpers: deterministic loop, clean end of path, selector concretisation."""
from __future__ import annotations

import asyncio
from typing import Any, Iterable, List

import vfw  # noqa: F401
import plumpy
from plumpy import process_states as ps
from vfw.engine import assume
from vfw.steploop import StepLoop

LIVE = (ps.ProcessState.CREATED, ps.ProcessState.RUNNING, ps.ProcessState.WAITING)
TERMINAL = (ps.ProcessState.FINISHED, ps.ProcessState.EXCEPTED, ps.ProcessState.KILLED)


def fresh_loop() -> StepLoop:
    loop = StepLoop()
    asyncio.set_event_loop(loop)
    return loop


def pick(sym: Any, n: int) -> int:
    """Concretise a selector by an explicit comparison chain (never index/`is` with a symbolic)."""
    for k in range(n):
        if sym == k:
            return k
    assume(False)
    return -1


def bit(mask: Any, i: int) -> bool:
    """Concrete truth of bit i of a (small, non-negative) symbolic mask."""
    if (mask >> i) % 2 == 1:
        return True
    return False


def cleanup(loop: StepLoop, procs: Iterable[Any], limit: int = 400) -> None:
    """End of path: terminate every live process and drain the loop (so that no pending task
    is garbage-collected under the tracer)."""
    for _ in range(3):
        for p in procs:
            try:
                if not p.has_terminated():
                    try:
                        p.play()
                    except Exception:  # noqa: BLE001
                        pass
                    p.kill('cleanup')
            except Exception:  # noqa: BLE001
                pass
        try:
            loop.run_all(limit)
        except Exception:  # noqa: BLE001
            pass
        if not loop.pending():
            break
    # anything still pending is cancelled explicitly
    n = 0
    while loop.pending() and n < limit:
        try:
            loop.step()
        except Exception:  # noqa: BLE001
            pass
        n += 1


def state_of(p: Any) -> Any:
    return p.state
