"""vfw - bounded symbolic execution of the real plumpy code (CrossHair + z3).

Importing this package puts the plumpy source tree under test first on sys.path:
``$PLUMPY_SRC`` if set (used by the self-test on mutant copies), else ``/repo/src``.
"""
import logging
import os
import sys
import warnings

PLUMPY_SRC = os.environ.get('PLUMPY_SRC', '/repo/src')
if PLUMPY_SRC in sys.path:
    sys.path.remove(PLUMPY_SRC)
sys.path.insert(0, PLUMPY_SRC)
VERIF_DIR = os.path.dirname(os.path.dirname(os.path.abspath(__file__)))
if VERIF_DIR not in sys.path:
    sys.path.insert(1, VERIF_DIR)

logging.disable(logging.CRITICAL)
warnings.simplefilter('ignore')
