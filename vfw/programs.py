"""Program family P0..P8: real plumpy.Process / WorkChain subclasses built from pure-data descriptors.

Every generated step records (class, step, phase, args, paused, status) in the module-level TRACE list,
so harnesses can compare executed-step sequences.  Classes are module-level (loadable by the default
object loader as ``vfw.programs:<name>``).
"""
from __future__ import annotations

import asyncio
import sys
from typing import Any, Dict, List

import vfw  # noqa: F401
import plumpy
from plumpy import process_states as ps
from plumpy.process_comms import MessageBuilder
from plumpy.workchains import WorkChain, if_, while_

TRACE: List[tuple] = []
ENV: Dict[str, Any] = {}  # per-path environment the steps may read (e.g. symbolic constants)


class Boom(RuntimeError):
    pass


def _rec(self, name, phase, args):
    TRACE.append((name, phase, tuple(args), self.paused, self.status))
    hook = ENV.get('step_hook')
    if hook is not None:
        hook(self, name, phase)


def _make_step(name: str, st: dict):
    nawait = st.get('nawait', 0)
    out = st.get('out')
    ret = st['ret']

    def finish(self, args):
        if out is not None:
            self.out(out[0], out[1])
        kind = ret[0]
        if kind == 'continue':
            return ps.Continue(getattr(self, ret[1]), *args)
        if kind == 'wait':
            return ps.Wait(getattr(self, ret[1]), ret[2] if len(ret) > 2 else None)
        if kind == 'value':
            return args[0] if (len(ret) < 2 and args) else (ret[1] if len(ret) > 1 else None)
        if kind == 'unsucc':
            return plumpy.UnsuccessfulResult(ret[1])
        if kind == 'kill':
            return ps.Kill(MessageBuilder.kill(ret[1]))
        if kind == 'raise':
            raise Boom(ret[1])
        raise AssertionError(kind)

    if nawait == 0:
        def fn(self, *args):
            _rec(self, name, 'enter', args)
            return finish(self, args)
    else:
        async def fn(self, *args):
            _rec(self, name, 'enter', args)
            for k in range(nawait):
                await asyncio.sleep(0)
                _rec(self, name, f'await{k}', ())
            return finish(self, args)
    fn.__name__ = name
    fn.__qualname__ = name
    return fn


def _build(clsname: str, steps: Dict[str, dict], outputs=()):
    ns: Dict[str, Any] = {}
    for name, st in steps.items():
        ns[name] = _make_step(name, st)

    def define(cls, spec):
        super(klass, cls).define(spec)
        for o in outputs:
            spec.output(o, required=False)

    ns['define'] = classmethod(define)
    ns['__module__'] = __name__
    klass = type(clsname, (plumpy.Process,), ns)
    klass.__qualname__ = clsname
    setattr(sys.modules[__name__], clsname, klass)
    return klass


P0 = _build('P0', {
    'run': dict(out=('a', 1), ret=('continue', 's1')),
    's1': dict(ret=('value', 7)),
}, outputs=('a',))

P1 = _build('P1', {
    'run': dict(nawait=2, ret=('continue', 's1')),
    's1': dict(nawait=1, out=('b', 2), ret=('value', 3)),
}, outputs=('b',))

P2 = _build('P2', {
    'run': dict(ret=('wait', 's1')),
    's1': dict(ret=('value',)),  # returns the resume value
})

P3 = _build('P3', {
    'run': dict(nawait=1, ret=('wait', 's1', 'waiting-1')),
    's1': dict(nawait=1, ret=('wait', 's2')),
    's2': dict(ret=('value',)),
})

P4 = _build('P4', {
    'run': dict(nawait=1, ret=('continue', 's1')),
    's1': dict(ret=('raise', 'boom')),
})

P5 = _build('P5', {
    'run': dict(ret=('continue', 's1')),
    's1': dict(ret=('kill', 'by-command')),
})

P6 = _build('P6', {
    'run': dict(nawait=1, ret=('unsucc', 4)),
})


class P7(WorkChain):
    """WorkChain: a; if_(cond)(b); c   (all sync, no awaitables)"""

    @classmethod
    def define(cls, spec):
        super().define(spec)
        spec.outline(cls.a, if_(cls.cond)(cls.b), cls.c)

    def a(self):
        _rec(self, 'a', 'enter', ())
        self.ctx.n = 1

    def cond(self):
        _rec(self, 'cond', 'enter', ())
        return True

    def b(self):
        _rec(self, 'b', 'enter', ())
        self.ctx.n += 1

    def c(self):
        _rec(self, 'c', 'enter', ())
        return self.ctx.n


class P8(WorkChain):
    """WorkChain awaiting one plain future registered by return value: a -> ToContext(r=fut); b reads ctx.r"""

    @classmethod
    def define(cls, spec):
        super().define(spec)
        spec.outline(cls.a, cls.b)

    def a(self):
        _rec(self, 'a', 'enter', ())
        self.fut = plumpy.Future()
        return plumpy.ToContext(r=self.fut)

    def b(self):
        _rec(self, 'b', 'enter', (self.ctx.r,))
        return self.ctx.r


P9 = _build('P9', {
    'run': dict(nawait=2, ret=('raise', 'async boom')),      # a step that fails after two await points
})

P10 = _build('P10', {
    'run': dict(nawait=1, out=('a', 1), ret=('value', 5)),   # normal return, but a required output is never emitted:
}, outputs=('a',))                                           # entering FINISHED is refused, FINISHED(unsuccessful) entered instead


def _p10_define(cls, spec):
    super(P10, cls).define(spec)
    spec.output('a', required=False)
    spec.output('needed', required=True)


P10.define = classmethod(_p10_define)

PROGRAMS = [P0, P1, P2, P3, P4, P5, P6, P7, P8, P9, P10]
N_PROGRAMS = len(PROGRAMS)


def program(i: int):
    return PROGRAMS[i]
