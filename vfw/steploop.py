import asyncio, collections, contextvars

class StepLoop(asyncio.AbstractEventLoop):
    """Deterministic FIFO loop: one ready callback per step()."""
    def __init__(self):
        self._ready = collections.deque()
        self._closed = False
        self._debug = False
        self.errors = []
        self._exc_handler = None
        self._running = False
    def get_debug(self): return self._debug
    def set_debug(self, v): self._debug = v
    def is_running(self): return self._running
    def is_closed(self): return self._closed
    def close(self): self._closed = True
    def time(self): return 0.0
    def call_soon(self, callback, *args, context=None):
        h = asyncio.Handle(callback, args, self, context)
        self._ready.append(h)
        return h
    call_soon_threadsafe = call_soon
    def call_later(self, delay, callback, *args, context=None):
        raise NotImplementedError
    call_at = call_later
    def create_future(self):
        return asyncio.Future(loop=self)
    def create_task(self, coro, *, name=None, context=None):
        return asyncio.Task(coro, loop=self, name=name, context=context)
    def call_exception_handler(self, context):
        self.errors.append(context)
    def default_exception_handler(self, context):
        self.errors.append(context)
    def set_exception_handler(self, h): self._exc_handler = h
    def get_exception_handler(self): return self._exc_handler
    def pending(self): return len(self._ready)
    def step(self):
        h = self._ready.popleft()
        if not h._cancelled:
            self._running = True
            asyncio._set_running_loop(self)
            try:
                # not Handle._run(): on an exception that would repr() the callback arguments (futures holding
                # symbolic values would be realised) and it would also swallow CrossHair's BaseExceptions
                try:
                    h._context.run(h._callback, *h._args)
                except BaseException as exc:  # noqa: BLE001  (asyncio's Handle._run does the same)
                    if isinstance(exc, (SystemExit, KeyboardInterrupt)) or type(exc).__module__.startswith('crosshair'):
                        raise
                    for klass in type(exc).__mro__:
                        if klass.__module__.startswith('crosshair'):
                            raise
                    self.errors.append({'message': 'Exception in callback ' + getattr(h._callback, '__qualname__', '?'),
                                        'exception': exc})
            finally:
                asyncio._set_running_loop(None)
                self._running = False

    def run_all(self, limit=1000):
        n = 0
        while self._ready and n < limit:
            self.step(); n += 1
        return n
    def _timer_handle_cancelled(self, handle): pass
