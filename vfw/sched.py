"""Schedule driver: run a program on the StepLoop and inject control requests at symbolic positions.

Tick semantics: tick n either runs exactly one ready loop callback or, when the loop is idle, is an
"idle tick" at which the environment policy acts (play a paused process, resume a waiting one, complete an
awaited future).  Before every tick, each not-yet-applied request whose (symbolic) position equals n is
applied.  Requests may also be bound to the o-th listener notification of a kind, in which case they are
issued synchronously from inside that notification (i.e. in the middle of a state transition).
When the process has terminated and the loop is idle, all remaining requests are applied in index order
(post-termination probes).
"""
from __future__ import annotations

import asyncio
from typing import Any, Callable, Dict, List, Optional

import vfw  # noqa: F401
import plumpy
from plumpy import process_states as ps
from plumpy.base.state_machine import StateEventHook
from vfw import programs
from vfw.drive import cleanup, fresh_loop
from vfw.engine import Violation

PAUSE, PLAY, KILL, RESUME, FAIL, CS_OK, CS_RAISE, CANCEL = range(8)
ACT_NAMES = ['pause', 'play', 'kill', 'resume', 'fail', 'call_soon_ok', 'call_soon_raise', 'future_cancel']
# where a request is issued
GAP, L_RUNNING, L_WAITING, L_PAUSED, L_PLAYED, H_ENTERING, H_EXITING = range(7)
WHERE_NAMES = ['gap', 'on_process_running', 'on_process_waiting', 'on_process_paused', 'on_process_played',
               'entering_state_callback', 'exiting_state_callback']

S = ps.ProcessState


class Injected(Exception):
    pass


class Req:
    def __init__(self, where: int, pos: Any, act: int, val: Any = 0, txt: Any = ''):
        self.where, self.pos, self.act, self.val, self.txt = where, pos, act, val, txt
        self.applied = False
        self.tick: Optional[int] = None
        self.ret: Any = None
        self.exc: Optional[BaseException] = None
        self.pre: Dict[str, Any] = {}
        self.post_state: Any = None
        self.handle: Any = None

    def describe(self) -> str:
        return f'{ACT_NAMES[self.act]}@{WHERE_NAMES[self.where]}'


class Listener(plumpy.ProcessListener):
    def __init__(self, run: 'Run'):
        super().__init__()
        self.run = run

    def _note(self, kind: int, name: str, *extra: Any) -> None:
        run = self.run
        run.notes.append((name,) + extra)
        if kind:
            occ = run.lcount.get(kind, 0)
            run.lcount[kind] = occ + 1
            for r in run.reqs:
                if not r.applied and r.where == kind and r.pos == occ:
                    run.apply(r)

    def on_process_running(self, process):
        self._note(L_RUNNING, 'running')

    def on_process_waiting(self, process):
        self._note(L_WAITING, 'waiting')

    def on_process_paused(self, process):
        self._note(L_PAUSED, 'paused')

    def on_process_played(self, process):
        self._note(L_PLAYED, 'played')

    def on_output_emitted(self, process, output_port, value, dynamic):
        self._note(0, 'output', output_port, value, dynamic)

    def on_process_finished(self, process, outputs):
        self._note(0, 'finished', outputs)

    def on_process_excepted(self, process, reason):
        self._note(0, 'excepted', reason)

    def on_process_killed(self, process, msg):
        self._note(0, 'killed', msg)


class Run:
    """One execution of a program under a schedule; collects observations for the oracles."""

    def __init__(self, prog: Any, reqs: List[Req], auto_resume: bool = True, auto_play: bool = True,
                 resume_default: Any = 11, max_ticks: int = 60, make: Optional[Callable[..., Any]] = None,
                 attach_listener: bool = True):
        self.reqs = reqs
        self.auto_resume, self.auto_play = auto_resume, auto_play
        self.resume_default = resume_default
        self.max_ticks = max_ticks
        del programs.TRACE[:]
        self.loop = fresh_loop()
        self.notes: List[tuple] = []
        self.lcount: Dict[int, int] = {}
        self._applying: List[Req] = []
        self._hook_into_terminal = False
        self.entered: List[tuple] = []      # (from_label, to_label, tick) from the public ENTERED_STATE hook
        self.samples: List[Any] = []        # state label after every tick / request
        self.cleanups = {'a': 0, 'b': 0}
        self.tick = 0
        self.ticks_run = 0
        self.idle_actions: List[tuple] = []
        self.future_done_while_live = False
        self.tick_trace_len: Dict[int, int] = {}  # trace length at the start of every tick
        self.paused_log: List[tuple] = []   # (tick, number of events so far, paused flag) after every tick/request
        self.events: List[tuple] = []       # time-ordered ('req', Req) / ('policy', kind) with trace length
        self.proc = make(self.loop) if make else prog(loop=self.loop)
        p = self.proc
        self.samples.append(p.state)
        self.listener = Listener(self)
        if attach_listener:
            p.add_process_listener(self.listener)
        p.add_state_event_callback(StateEventHook.ENTERED_STATE, self._entered)
        if any(r.where in (H_ENTERING, H_EXITING) for r in reqs):
            # requests issued from the public state-event callbacks, i.e. before the new state is in place
            p.add_state_event_callback(StateEventHook.ENTERING_STATE, lambda _sm, _h, st: self._hook(H_ENTERING, st))
            p.add_state_event_callback(StateEventHook.EXITING_STATE, lambda _sm, _h, st: self._hook(H_EXITING, st))
        p.add_cleanup(lambda: self._cleanup('a'))
        self.future = p.future()
        self.task = self.loop.create_task(p.step_until_terminated())
        self.auto_resumed = 0
        self.terminal_tick: Optional[int] = None
        self.trace_len_at_terminal: Optional[int] = None

    # --- observation hooks -------------------------------------------------
    def _cleanup(self, k: str) -> None:
        self.cleanups[k] += 1

    def _entered(self, sm, _hook, from_state) -> None:
        frm = from_state.LABEL if from_state is not None else None
        self.entered.append((frm, sm.state, self.tick))

    def _hook(self, kind: int, new_state: Any = None) -> None:
        if self._applying:
            # the transition is performed by a direct control call (kill/fail of a process that is not stepping): a
            # further control call from inside it would re-enter transition_to, which plumpy forbids by assertion
            return
        self._hook_into_terminal = bool(new_state is not None and new_state.is_terminal())
        occ = self.lcount.get(kind, 0)
        self.lcount[kind] = occ + 1
        try:
            for r in self.reqs:
                if not r.applied and r.where == kind and r.pos == occ:
                    self.apply(r)
        finally:
            self._hook_into_terminal = False

    def sample(self) -> None:
        p = self.proc
        st = p.state
        if st != self.samples[-1]:
            self.samples.append(st)
        if not p.has_terminated() and p.future().done() and not p.future().cancelled() and not self._hook_into_terminal:
            # (in the middle of the transition into a terminal state the future is set before the state is in place)
            self.future_done_while_live = True   # (a future cancelled by its holder is the holder's doing)
        self.paused_log.append((self.tick, len(self.events), p.paused))
        if p.has_terminated() and self.terminal_tick is None:
            self.terminal_tick = self.tick
            self.trace_len_at_terminal = len(programs.TRACE)

    # --- requests -----------------------------------------------------------
    def apply(self, r: Req) -> None:
        p = self.proc
        r.applied = True
        r.tick = self.tick
        r.seq = len(self.events)            # application order (listener/hook requests of one tick are not in index order)
        self.events.append(('req', r, len(programs.TRACE)))
        r.nested = []                       # requests issued (from a listener/hook) while this one is being carried out
        for outer in self._applying:
            outer.nested.append(r)
        self._applying.append(r)
        wf = getattr(getattr(p, '_state', None), '_waiting_future', None)
        r.queue_len = self.loop.pending()
        r.pre = dict(
            state=p.state, paused=p.paused, terminated=p.has_terminated(),
            stepping=bool(getattr(p, '_stepping', False)),
            pausing=getattr(p, '_pausing', None) is not None,
            killing=getattr(p, '_killing', None) is not None,
            waiting_future_done=bool(wf is not None and wf.done()),
            in_listener=r.where != GAP,
            into_terminal=bool(r.where in (H_ENTERING, H_EXITING) and self._hook_into_terminal),
            trace_len=len(programs.TRACE),
            n_entered=len(self.entered),
        )
        try:
            if r.act == PAUSE:
                r.ret = p.pause(r.txt)
            elif r.act == PLAY:
                r.ret = p.play()
            elif r.act == KILL:
                r.ret = p.kill(r.txt)
            elif r.act == RESUME:
                r.ret = p.resume(r.val)
            elif r.act == FAIL:
                r.handle = Injected('fail-request')
                r.ret = p.fail(r.handle, None)
            elif r.act == CS_OK:
                r.handle = p.call_soon(lambda: None)
            elif r.act == CS_RAISE:
                def raiser():
                    raise Injected('late-callback')
                r.handle = p.call_soon(raiser)
            elif r.act == CANCEL:
                r.ret = p.future().cancel()
        except Exception as e:  # noqa: BLE001
            r.exc = e
        finally:
            self._applying.pop()
        r.post_state = p.state
        r.post_paused = p.paused
        self.sample()

    # --- main loop ------------------------------------------------------------
    def policy_act(self) -> bool:
        """Environment behaviour at an idle point with a live process."""
        p = self.proc
        n = self.tick
        if p.paused and self.auto_play:
            self.events.append(('policy_play', None, len(programs.TRACE)))
            self.idle_actions.append(('play', n, len(programs.TRACE)))
            p.play()
            return True
        if p.state == S.WAITING and self.auto_resume and not p.paused:
            fut = getattr(p, 'fut', None)
            if fut is not None and not fut.done():
                self.idle_actions.append(('complete_future', n, len(programs.TRACE)))
                fut.set_result(self.resume_default)
                return True
            if fut is None and self.auto_resumed < 6:
                self.idle_actions.append(('resume', n, len(programs.TRACE)))
                self.auto_resumed += 1
                p.resume(self.resume_default)
                return True
        return False

    def settle(self) -> None:
        p = self.proc
        for _ in range(120):
            if getattr(self, 'pre_tick', None) is not None:
                self.pre_tick()
            if self.loop.pending():
                self.loop.step()
                self.ticks_run += 1
                self.sample()
                continue
            if p.has_terminated() or not self.policy_act():
                break
            self.sample()

    def go(self) -> 'Run':
        p = self.proc
        loop = self.loop
        while self.tick < self.max_ticks:
            n = self.tick
            self.tick_trace_len[n] = len(programs.TRACE)
            if getattr(self, 'pre_tick', None) is not None:
                self.pre_tick()
            for r in self.reqs:
                if not r.applied and r.where == GAP and r.pos == n:
                    self.apply(r)
            if loop.pending():
                loop.step()
                self.ticks_run += 1
                self.sample()
                self.tick += 1
                continue
            # idle tick
            if p.has_terminated() or not self.policy_act():
                break
            self.sample()
            self.tick += 1
        self.main_ticks = self.tick
        # end-of-run probes: all remaining gap requests (their position lies beyond the last tick) in index
        # order, each followed by draining the loop and letting the environment policy act
        for r in self.reqs:
            if not r.applied and r.where == GAP:
                self.tick += 1
                self.apply(r)
                self.settle()
        self.settle()
        self.live_at_end = not p.has_terminated()
        return self

    def finish(self) -> None:
        cleanup(self.loop, [self.proc])


def describe(reqs: List[Req]) -> List[str]:
    return [f'{r.describe()}:tick={r.tick}' for r in reqs if r.applied]
