"""Differential self-test: stock asyncio loop vs StepLoop on interleaved plumpy processes."""
import asyncio
import sys

import vfw  # noqa: F401
import plumpy
from plumpy import process_states as ps
from vfw.steploop import StepLoop

TRACE = []


class A(plumpy.Process):
    async def run(self):
        TRACE.append((self.pid, 'run'))
        await asyncio.sleep(0)
        TRACE.append((self.pid, 'run2'))
        return ps.Wait(self.s2)

    async def s2(self, v=None):
        TRACE.append((self.pid, 's2', v))
        await asyncio.sleep(0)
        return ps.Continue(self.s3, v)

    def s3(self, v):
        TRACE.append((self.pid, 's3', v))
        return v


class L(plumpy.ProcessListener):
    def on_process_waiting(self, p):
        TRACE.append((p.pid, 'waiting'))
        p.loop.call_soon(p.resume, p.pid * 10)

    def on_process_finished(self, p, o):
        TRACE.append((p.pid, 'finished'))


def scenario(loop):
    TRACE.clear()
    ps_ = [A(pid=i + 1, loop=loop) for i in range(2)]
    l = L()
    for p in ps_:
        p.add_process_listener(l)
    return ps_


def main():
    loop = asyncio.new_event_loop()
    asyncio.set_event_loop(loop)
    procs = scenario(loop)
    loop.run_until_complete(asyncio.gather(*[p.step_until_terminated() for p in procs]))
    t_stock = list(TRACE)
    loop.close()
    sl = StepLoop()
    asyncio.set_event_loop(sl)
    procs = scenario(sl)
    for p in procs:
        sl.create_task(p.step_until_terminated())
    sl.run_all(10000)
    t_stub = list(TRACE)
    if t_stock != t_stub or not t_stock or any(p.state != ps.ProcessState.FINISHED for p in procs):
        print('loop stub self-test FAILED', t_stock, t_stub)
        return 1
    print(f'loop stub self-test ok ({len(t_stub)} events identical on stock asyncio loop and StepLoop)')
    return 0


if __name__ == '__main__':
    sys.exit(main())
