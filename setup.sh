#!/bin/bash
# Offline setup: overlay venv on top of /venv (which has plumpy's dependencies) with
# crosshair-tool + z3-solver installed from the local wheelhouse.  Idempotent.
set -euo pipefail
cd "$(dirname "$0")"
V=.venv
if [ ! -x "$V/bin/python" ] || ! "$V/bin/python" -c "import crosshair, z3, kiwipy, yaml" >/dev/null 2>&1; then
    rm -rf "$V"
    /venv/bin/python -m venv "$V"
    SP=$("$V/bin/python" -c "import sysconfig; print(sysconfig.get_paths()['purelib'])")
    echo "import site; site.addsitedir('/venv/lib/python3.12/site-packages')" > "$SP/_overlay.pth"
    PIP_NO_INDEX=1 "$V/bin/pip" install -q --no-index --find-links /opt/veriftools/wheels crosshair-tool >/dev/null
fi
"$V/bin/python" -c "import crosshair, z3, kiwipy, yaml; print('setup ok: crosshair', crosshair.__version__, 'z3', z3.get_version_string())"
# differential self-test of the event-loop stub against stock asyncio
PYTHONHASHSEED=0 "$V/bin/python" -m vfw.selfcheck
