"""C20 - future adapters deliver result, error or cancellation exactly once."""
import asyncio

import kiwipy

import vfw  # noqa: F401
import plumpy
from plumpy import communications, futures
from vfw import programs
from vfw.drive import cleanup, fresh_loop, pick
from vfw.engine import NOTES, Violation, assume

PROPERTY_ID = 'C20'
LEVEL = 'exploration'
VAL, EXC, CANCEL, NEXT = range(4)
KNAMES = ['value', 'exception', 'cancelled', 'future-of-next-level']
PERMS3 = [(0, 1, 2), (0, 2, 1), (1, 0, 2), (1, 2, 0), (2, 0, 1), (2, 1, 0)]
PERMS4 = [p for p in __import__('itertools').permutations(range(4))]


def levels(depth, k0, k1, k2, k3, order):
    """(n, kinds, completion order) for depth <= 4 (depth 4 only in the thorough tier: 24 orders)"""
    n = pick(depth, 4) + 1
    kinds = [pick(k, 4) for k in (k0, k1, k2, k3)[:n]]
    perm = PERMS4[pick(order, 24)] if n == 4 else PERMS3[pick(order, 6)]
    return n, kinds, perm


class Boom(Exception):
    pass


def innermost(kinds):
    """index of the level whose outcome is the final one: follow NEXT links from level 0"""
    i = 0
    while kinds[i] == NEXT:
        i += 1
    return i


def settle_outcome(fut):
    """('value', v) | ('exception', e) | ('cancelled',) | ('pending',)   for kiwipy (concurrent) or asyncio futures"""
    if not fut.done():
        return ('pending',)
    if fut.cancelled():
        return ('cancelled',)
    e = fut.exception()
    if e is not None:
        return ('exception', e)
    return ('value', fut.result())


def expect(kind, v, exc):
    return {VAL: ('value', v), EXC: ('exception', exc), CANCEL: ('cancelled',)}[kind]


def check_outcome(got, want, what, **facts):
    if got[0] != want[0]:
        raise Violation('adapter_outcome_kind', adapter=what, got=got[0], want=want[0], **facts)
    if got[0] == 'value' and got[1] != want[1]:
        raise Violation('adapter_wrong_value', adapter=what, **facts)
    if got[0] == 'exception' and got[1] is not want[1]:
        raise Violation('adapter_wrong_exception', adapter=what, got_type=type(got[1]).__name__, **facts)


# ------------------------------------------------------------------------------------------------
def unwrap(depth: int, k0: int, k1: int, k2: int, k3: int, order: int, v: int):
    """unwrap_kiwi_future over kiwipy futures resolving to futures, every completion order"""
    n, kinds, perm0 = levels(depth, k0, k1, k2, k3, order)
    assume(kinds[n - 1] != NEXT)
    for i in range(n - 1):
        assume(kinds[i] == NEXT or i >= innermost(kinds))  # levels behind the final one never exist
    n = innermost(kinds) + 1
    kinds = kinds[:n]
    perm = [p for p in perm0 if p < n]
    futs = [kiwipy.Future() for _ in range(n)]
    u = futures.unwrap_kiwi_future(futs[0])
    exc = Boom('x')
    facts = dict(kinds=[KNAMES[k] for k in kinds], order=perm)
    for step, i in enumerate(perm):
        if u.done() and step < len(perm) and innermost(kinds) not in perm[:step]:
            raise Violation('resolved_too_early', adapter='unwrap_kiwi_future', **facts)
        k = kinds[i]
        if k == VAL:
            futs[i].set_result(v)
        elif k == EXC:
            futs[i].set_exception(exc)
        elif k == CANCEL:
            futs[i].cancel()
        else:
            futs[i].set_result(futs[i + 1])
    check_outcome(settle_outcome(u), expect(kinds[-1], v, exc), 'unwrap_kiwi_future', **facts)
    NOTES.nontrivial = True
    if n == 3:
        NOTES.witness('depth3')
    if n == 4:
        NOTES.witness('depth4')
    if kinds[-1] == CANCEL and n > 1:
        NOTES.witness('inner_cancel')
    NOTES.info = facts


def mirror(depth: int, k0: int, k1: int, k2: int, k3: int, order: int, v: int):
    """plum_to_kiwi_future (+ unwrap_kiwi_future on top): loop futures resolving to loop futures"""
    n, kinds, perm0 = levels(depth, k0, k1, k2, k3, order)
    assume(kinds[n - 1] != NEXT)
    n = innermost(kinds) + 1
    kinds = kinds[:n]
    perm = [p for p in perm0 if p < n]
    loop = fresh_loop()
    futs = [loop.create_future() for _ in range(n)]
    k = communications.plum_to_kiwi_future(futs[0])
    u = futures.unwrap_kiwi_future(k)
    exc = Boom('x')
    facts = dict(kinds=[KNAMES[x] for x in kinds], order=perm)
    for i in perm:
        kd = kinds[i]
        if kd == VAL:
            futs[i].set_result(v)
        elif kd == EXC:
            futs[i].set_exception(exc)
        elif kd == CANCEL:
            futs[i].cancel()
        else:
            futs[i].set_result(futs[i + 1])
        loop.run_all(100)
    loop.run_all(100)
    # the direct mirror of level 0
    if kinds[0] == NEXT:
        got = settle_outcome(k)
        if got[0] != 'value' or not isinstance(got[1], kiwipy.Future):
            raise Violation('mirror_of_future_result', got=got[0], **facts)
    else:
        check_outcome(settle_outcome(k), expect(kinds[0], v, exc), 'plum_to_kiwi_future', **facts)
    check_outcome(settle_outcome(u), expect(kinds[-1], v, exc), 'unwrap(plum_to_kiwi_future)', **facts)
    if loop.errors:
        raise Violation('exception_in_loop_callback', msg=loop.errors[0]['message'][:80], **facts)
    NOTES.nontrivial = True
    if n >= 2:
        NOTES.witness('nested_loop_futures')
    NOTES.info = facts


def task(kind: int, nawait: int, v: int):
    """create_task: the future ends with the coroutine's result or exception; the coroutine runs once"""
    kd = pick(kind, 2)
    na = pick(nawait, 3)
    loop = fresh_loop()
    calls = [0]
    exc = Boom('t')

    async def coro():
        calls[0] += 1
        for _ in range(na):
            await asyncio.sleep(0)
        if kd == EXC:
            raise exc
        return v

    f = futures.create_task(coro, loop)
    if f.done():
        raise Violation('resolved_too_early', adapter='create_task')
    loop.run_all(200)
    check_outcome(settle_outcome(f), expect(kd, v, exc), 'create_task')
    if calls[0] != 1:
        raise Violation('call_count', adapter='create_task', n=calls[0])
    NOTES.nontrivial = True
    NOTES.witness('create_task')


def rpc(depth: int, k0: int, k1: int, k2: int, raises: bool, v: int):
    """Process._schedule_rpc: reply future resolves to the final outcome of the callback, through layers of futures"""
    n = pick(depth, 3)  # number of future layers the callback's return value is wrapped in
    kinds = [pick(k0, 4), pick(k1, 4), pick(k2, 4)][:n]
    if n:
        assume(kinds[n - 1] != NEXT and kinds[n - 1] != CANCEL)
        for i in range(n - 1):
            assume(kinds[i] == NEXT)
    loop = fresh_loop()
    proc = programs.P2(loop=loop)
    exc = Boom('r')
    futs = [loop.create_future() for _ in range(n)]
    calls = [0]

    def cb():
        calls[0] += 1
        if raises:
            raise exc
        return futs[0] if n else v

    try:
        reply = proc._schedule_rpc(cb)
        if reply.done():
            raise Violation('resolved_too_early', adapter='_schedule_rpc')
        loop.run_all(100)
        for i in range(n):
            kd = kinds[i]
            if kd == VAL:
                futs[i].set_result(v)
            elif kd == EXC:
                futs[i].set_exception(exc)
            else:
                futs[i].set_result(futs[i + 1])
            loop.run_all(100)
        got = settle_outcome(reply)
        if raises:
            if got[0] != 'exception' or not (got[1] is exc or got[1].__cause__ is exc):
                raise Violation('rpc_error_not_reported', got=got[0])
        else:
            check_outcome(got, expect(kinds[-1] if n else VAL, v, exc), '_schedule_rpc', layers=n)
        if calls[0] != 1:
            raise Violation('call_count', adapter='_schedule_rpc', n=calls[0])
        NOTES.nontrivial = True
        if n >= 2:
            NOTES.witness('rpc_nested')
    finally:
        cleanup(loop, [proc])


RUN_OK, RUN_RAISE, CANCEL_OP = range(3)


def action(nops: int, o0: int, o1: int, o2: int, o3: int, v: int):
    """CancellableAction: at most one call, outcome through itself, refuses to run twice / after cancellation"""
    ops = [pick(o, 3) for o in (o0, o1, o2, o3)[:pick(nops, 5)]]
    assume(len(ops) >= 3)
    fresh_loop()
    calls = [0]
    exc = Boom('a')
    mode = [RUN_OK]

    def fn(x):
        calls[0] += 1
        if mode[0] == RUN_RAISE:
            raise exc
        return x

    a = futures.CancellableAction(fn, cookie='c')
    settled = None
    for op in ops:
        before = settle_outcome(a)
        if op == CANCEL_OP:
            a.cancel()
            if settled is None:
                settled = ('cancelled',)
        else:
            mode[0] = op
            try:
                a.run(v)
                raised = None
            except Exception as e:  # noqa: BLE001
                raised = e
            if settled is None:
                if raised is not None:
                    raise Violation('first_run_raised', err=type(raised).__name__)
                settled = ('value', v) if op == RUN_OK else ('exception', exc)
            else:
                if not isinstance(raised, futures.InvalidStateError):
                    raise Violation('second_run_not_refused', raised=type(raised).__name__ if raised else None, ops=ops)
                if settle_outcome(a)[0] != before[0]:
                    raise Violation('refused_run_changed_outcome', ops=ops)
        check_outcome(settle_outcome(a), settled, 'CancellableAction', ops=ops)
    want_calls = 1 if settled[0] != 'cancelled' else 0
    if calls[0] != want_calls:
        raise Violation('call_count', adapter='CancellableAction', n=calls[0], ops=ops)
    if a.cookie != 'c':
        raise Violation('cookie_lost')
    NOTES.nontrivial = True
    if ops[0] == CANCEL_OP and (ops[1] != CANCEL_OP or ops[2] != CANCEL_OP):
        NOTES.witness('run_after_cancel')
    if ops[0] != CANCEL_OP and (ops[1] != CANCEL_OP):
        NOTES.witness('run_twice')
    NOTES.info = dict(ops=ops)


HARNESSES = {'unwrap': unwrap, 'mirror': mirror, 'task': task, 'rpc': rpc, 'action': action}


def shards(tier):
    out = []
    b = 300 if tier == 'quick' else 1200
    deep = tier != 'quick'
    for d in range(4 if deep else 3):
        if d < 3:
            out.append(dict(name=f'unwrap/depth={d + 1}', harness='unwrap', fixed=dict(depth=d), budget_s=b))
            out.append(dict(name=f'mirror/depth={d + 1}', harness='mirror', fixed=dict(depth=d), budget_s=b))
            out.append(dict(name=f'rpc/layers={d}', harness='rpc', fixed=dict(depth=d), budget_s=b))
        else:   # depth 4: 24 completion orders, split by the outermost level's outcome kind
            for k0 in range(4):
                out.append(dict(name=f'unwrap/depth=4/k0={k0}', harness='unwrap', fixed=dict(depth=d, k0=k0), budget_s=b))
                out.append(dict(name=f'mirror/depth=4/k0={k0}', harness='mirror', fixed=dict(depth=d, k0=k0), budget_s=b))
    out.append(dict(name='task', harness='task', fixed={}, budget_s=b))
    for o0 in range(3):
        out.append(dict(name=f'action/o0={o0}', harness='action', fixed=dict(o0=o0, nops=4 if deep else 3), budget_s=b))
    return out


BOUNDS = {t: dict(nesting='futures resolving to futures up to depth %d' % (3 if t == 'quick' else 4), outcomes='value (symbolic int) / exception / cancellation at every level',
                  order='every completion order of the levels (all permutations)', adapters=['unwrap_kiwi_future', 'plum_to_kiwi_future', 'their composition', 'create_task (0-2 await points)', 'Process._schedule_rpc (0-2 future layers, raising callback)'],
                  cancellable_action='all sequences of length %d over {run(ok), run(raising), cancel}' % (3 if t == 'quick' else 4)) for t in ('quick', 'thorough')}
OUTSIDE = ['real threads (kiwipy futures are completed from the same thread)', 'depth > 3 (quick) / > 4 (thorough)', 'cancellation of the adapter future by its consumer']
RULE = 'paths over (depth, outcome per level, completion order, value); non-trivial when the adapter future was checked against the innermost outcome'
SOLVER_ROLE = 'selector role for kinds/order (exhaustive), data role for the delivered value'
EXPLANATION = 'faithfulness of the future adapters and the run-once contract of CancellableAction'
ASSUMPTIONS = ['asyncio.run_coroutine_threadsafe on the StepLoop stub schedules through call_soon_threadsafe == call_soon (single thread)']
_W = ['depth3', 'inner_cancel', 'nested_loop_futures', 'create_task', 'rpc_nested', 'run_after_cancel', 'run_twice']
REQUIRED_WITNESSES = {'quick': _W, 'thorough': _W + ['depth4']}
LEVEL_TEXT = 'bounded exhaustive symbolic exploration of nesting depth (<= 3 quick, <= 4 thorough) x outcome per level x completion order for each adapter, and of all operation sequences of length 3 (4 thorough) on a CancellableAction'
