"""C08 - resuming from any checkpoint reproduces the uninterrupted execution."""
import copy

import vfw  # noqa: F401
import plumpy
from plumpy import process_states as ps
from plumpy.base.state_machine import StateEventHook
from vfw import outlines
from vfw.drive import cleanup, fresh_loop, pick
from vfw.engine import NOTES, Violation, assume

PROPERTY_ID = 'C08'
LEVEL = 'exploration'
S = ps.ProcessState
NB, NR = 5, 3
_FAM = {}


def family(tier):
    if tier not in _FAM:
        fam = outlines.enumerate_outlines(4, 2) if tier == 'quick' else outlines.enumerate_outlines(5, 2)
        # only outlines with at least two steps (so there is a boundary to crash at) and some control structure
        fam = [o for o in fam if outlines.count(o)[0] >= 2 and outlines.count(o)[1] >= 1]
        if tier == 'quick':
            fam = fam[::6]
        else:
            fam = fam[::16]
        _FAM[tier] = fam + list(outlines.HANDPICKED)
    return _FAM[tier]


def install_streams(bools, rets):
    """predicate / step values are functions of the persisted context only (call counters live in ctx)"""
    def pred(wc, i):
        k = wc.ctx.get('np', 0)
        wc.ctx.np = k + 1
        wc.ctx.trace = wc.ctx.get('trace', []) + [('p', i)]
        return bools[k] if k < len(bools) else False

    def step(wc, i):
        k = wc.ctx.get('ns', 0)
        wc.ctx.ns = k + 1
        wc.ctx.trace = wc.ctx.get('trace', []) + [('s', i)]
        wc.out(f'o{k}', i + wc.inputs.d - 1)      # reads a defaulted input: parsed inputs must survive a restore
        if k >= len(rets):
            return None
        r = rets[k]
        if r == 0:
            return None
        if r == 1:
            return plumpy.ToContext()
        return r

    outlines.ENV['pred'], outlines.ENV['step'] = pred, step


def run_one(cls, bundle, base_entry, want):
    """run a fresh / restored instance to termination, snapshotting inside the ENTERED_STATE callback"""
    loop = fresh_loop()
    snaps = {}
    entry = [base_entry]
    extra = []
    if bundle is None:
        proc = cls(loop=loop)
    else:
        # loading must not use the checkpoint up: it is loaded twice and the SECOND instance is the one that is resumed
        extra.append(bundle.unbundle(plumpy.LoadSaveContext(loop=loop)))
        proc = bundle.unbundle(plumpy.LoadSaveContext(loop=loop))
    if entry[0] in want:
        snaps[entry[0]] = copy.deepcopy(plumpy.Bundle(proc))

    def cb(_sm, _hook, _from):
        entry[0] += 1
        if entry[0] in want and not proc.has_terminated():
            snaps[entry[0]] = copy.deepcopy(plumpy.Bundle(proc))

    proc.add_state_event_callback(StateEventHook.ENTERED_STATE, cb)
    try:
        loop.create_task(proc.step_until_terminated())
        loop.run_all(4000)
        res = dict(state=proc.state, trace=list(proc.ctx.get('trace', [])), outputs=dict(proc.outputs),
                   result=proc.result() if proc.state == S.FINISHED else repr(proc.exception()),
                   ctx={k: v for k, v in proc.ctx.__dict__.items()}, entries=entry[0], live_entries=entry[0] - 1)
        return res, snaps
    finally:
        cleanup(loop, [proc] + extra)


def _harness(desc, name, bools, rets, r0, r1, r2):
    cls = outlines.make_class(name, desc)
    install_streams(bools, rets)
    if not cls.spec().sealed:
        cls.spec().outputs.dynamic = True
    ref, _ = run_one(cls, None, 0, set())
    if ref['state'] != S.FINISHED:
        raise Violation('reference_not_finished', state=str(ref['state']), err=str(ref['result'])[:100], outline=repr(desc)[:160])
    nb = ref['entries']  # entries 0..nb-1 are live states (the last entry is FINISHED)
    pts = []
    prev = -1
    for r in (r0, r1, r2):
        if r == -1:
            prev = nb
            continue
        assume(prev < r < nb)
        prev = r
        for c in range(nb):
            if r == c:
                pts.append(c)
                break
    if not pts:
        return
    res, snaps = run_one(cls, None, 0, set(pts[:1]))
    for i, j in enumerate(pts):
        if j not in snaps:
            raise Violation('snapshot_missing', entry=j, outline=repr(desc)[:160])
        res, snaps = run_one(cls, snaps[j], j, set(pts[i + 1:i + 2]))
        facts = dict(outline=repr(desc)[:200], crash_entries=pts[:i + 1])
        if res['state'] != ref['state']:
            raise Violation('final_state_differs', got=str(res['state']), err=str(res['result'])[:120], **facts)
        if res['trace'] != ref['trace']:
            raise Violation('steps_differ', got=[f'{a}{b}' for a, b in res['trace']][:30], ref=[f'{a}{b}' for a, b in ref['trace']][:30], **facts)
        if res['outputs'] != ref['outputs']:
            raise Violation('outputs_differ', **facts)
        if res['result'] != ref['result']:
            raise Violation('result_differs', **facts)
        if res['ctx'] != ref['ctx']:
            raise Violation('context_differs', **facts)
    NOTES.nontrivial = True
    if len(pts) >= 2:
        NOTES.witness('chained_restores')
    if any(0 < j for j in pts):
        NOTES.witness('crash_mid_outline')
    if any(t[0] == 'p' for t in ref['trace']):
        NOTES.witness('control_structure_active')
    NOTES.info = dict(outline=repr(desc)[:160], crash_entries=pts, steps=len(ref['trace']))


GROUP = {'quick': 1, 'thorough': 2}
TIERS = ['quick', 'thorough']


def resume(tq: int, lo: int, off: int, b0: bool, b1: bool, b2: bool, b3: bool, b4: bool, r0: int, r1: int, r2: int,
           c0: int, c1: int, c2: int):
    tier = TIERS[tq]
    fam = family(tier)
    k = pick(off, GROUP[tier])
    assume(lo + k < len(fam))
    idx = lo + k
    _harness(fam[idx], f'R_{tier}_{idx}', [b0, b1, b2, b3, b4], [r0, r1, r2], c0, c1, c2)


HARNESSES = {'resume': resume}


def shards(tier):
    fam = family(tier)
    g = GROUP[tier]
    nh = 4 if tier == 'quick' else 8  # the first (smallest) outlines of the family get longer restore chains
    out = []
    for lo in range(0, len(fam), g):
        fixed = dict(tq=TIERS.index(tier), lo=lo)
        hand = lo < nh
        if tier == 'quick':
            fixed['c2'] = -1
            if not hand:
                fixed['c1'] = -1
        elif not hand:
            fixed['c2'] = -1
        if hand:
            # longer restore chains: split by the first crash point (first crash within the first 10 entries)
            for c0 in range(0, 10):
                out.append(dict(name=f'resume/{tier}/{lo}-{min(lo + g, len(fam)) - 1}/c0={c0}', harness='resume',
                                fixed=dict(fixed, c0=c0), budget_s=600 if tier == 'quick' else 3000))
            continue
        out.append(dict(name=f'resume/{tier}/{lo}-{min(lo + g, len(fam)) - 1}', harness='resume', fixed=fixed,
                        budget_s=600 if tier == 'quick' else 3000))
    return out


BOUNDS = {
    'quick': dict(outlines='every 6th outline (deterministic enumeration order) with <= 4 instructions, depth <= 2, >= 2 steps and >= 1 conditional, + 6 hand-picked deeper ones',
                  crash_points='one restore (chains of 2 for the 4 smallest outlines) at any state entry (CREATED and every RUNNING entry, i.e. every step boundary); snapshot = deep copy of Bundle taken in the ENTERED_STATE callback; each restore in a fresh event loop; every checkpoint is loaded twice and the second instance resumed (loading must not consume it)',
                  values=f'{NB} symbolic predicate values, {NR} symbolic step return codes (0 None, 1 empty ToContext, else stop with that int), derived from counters persisted in ctx'),
    'thorough': dict(outlines='every 16th outline with <= 5 instructions, depth <= 2, >= 2 steps, >= 1 conditional (+ 6 hand-picked)', crash_points='chains of <= 2 restores (3 for the 8 smallest outlines)', values='as quick'),
}
OUTSIDE = ['pickle / YAML as checkpoint medium (C07 covers the media; here data stays symbolic through deepcopy)', 'plain Process continuation chains (C13)',
           'steps whose behaviour depends on non-persisted state', 'awaitables across a checkpoint (futures are not persistable)']
RULE = 'paths over (outline, value streams, chain of crash points); non-trivial when at least one restore happened; the uninterrupted run of the same path is the reference'
SOLVER_ROLE = 'data role for predicate/step values (both runs consume the same symbolic values); selector role for the crash points'
EXPLANATION = 'restore-and-continue equals uninterrupted run: trace kept in the persisted context, outputs, ctx, state, result'
ASSUMPTIONS = ['steps depend only on persisted state (ctx), as the property requires']
REQUIRED_WITNESSES = ['chained_restores', 'crash_mid_outline', 'control_structure_active']
LEVEL_TEXT = ('bounded exhaustive symbolic exploration: for every outline of the bounded family, all predicate/step values and every chain of up to M crash points at step '
              'boundaries, the resumed execution has the same complete step trace, outputs, context, final state and result as the uninterrupted one')
