"""C10 - ToContext is a barrier: the next step sees every awaited result."""
import vfw  # noqa: F401
import plumpy
from plumpy import process_states as ps
from plumpy.workchains import WorkChain
from vfw import programs, sched
from vfw.drive import pick
from vfw.engine import NOTES, Violation, assume
from vfw.sched import GAP, Req

PROPERTY_ID = 'C10'
LEVEL = 'exploration'
S = ps.ProcessState
NPOS = 10
OK, EXC, KILLED = range(3)
ONAMES = ['value', 'fails', 'killed']
PLAN = {}
SEEN = {}


class Boom(Exception):
    pass


class Child(plumpy.Process):
    @classmethod
    def define(cls, spec):
        super().define(spec)
        spec.output('r', required=False)

    def run(self):
        return ps.Wait(self.s1)

    def s1(self, v):
        self.out('r', v)
        return v


class Barrier(WorkChain):
    @classmethod
    def define(cls, spec):
        super().define(spec)
        spec.outline(cls.a, cls.b, cls.c)

    def a(self):
        items = []
        for i in range(PLAN['n']):
            if PLAN['child'][i]:
                items.append(self.launch(Child))
                continue
            f = plumpy.Future()
            if i in PLAN['pre']:
                # the awaited item is already complete when it is handed over (and when WAITING is entered)
                if PLAN['outcomes'][i] == OK:
                    f.set_result(PLAN['vals'][i])
                else:
                    PLAN['excs'][i] = Boom(f'fut{i}')
                    f.set_exception(PLAN['excs'][i])
            items.append(f)
        PLAN['items'] = items
        if PLAN['n'] == 0:
            return None
        for i in range(1, PLAN['n']):
            self.to_context(**{f'k{i}': items[i]})          # registration by to_context()
        if PLAN['first_by_return']:
            return plumpy.ToContext(k0=items[0])            # registration by return value
        self.to_context(k0=items[0])
        return None

    def b(self):
        SEEN['b'] = dict(done=[(it.future() if isinstance(it, plumpy.Process) else it).done() for it in PLAN['items']],
                         ctx={k: v for k, v in self.ctx.__dict__.items()})
        if PLAN['second']:
            PLAN['second_future'] = plumpy.Future()
            return plumpy.ToContext(k0=PLAN['second_future'])     # a later assignment replaces the earlier value
        return None

    def c(self):
        SEEN['c'] = dict(ctx={k: v for k, v in self.ctx.__dict__.items()},
                         second_done=PLAN.get('second_future') is None or PLAN['second_future'].done())
        return 0


class Complete(Req):
    def __init__(self, pos, idx, outcome, val):
        super().__init__(GAP, pos, sched.RESUME, val, '')
        self.idx, self.outcome = idx, outcome
        self.done_order = None


def _harness(n, child, outcomes, vals, poss, first_by_return, second, spos, sval, pause_pos=None):
    for i in range(n):
        assume(child[i] or outcomes[i] != KILLED)   # only child processes can be killed; cancelled plain futures are outside the claim
    PLAN.clear()
    SEEN.clear()
    pre = set()
    for i in range(n):
        if poss[i] == -1:
            assume(not child[i] and outcomes[i] != KILLED)
            pre.add(i)
    PLAN.update(n=n, child=child, first_by_return=first_by_return, second=second, items=[], pre=pre, outcomes=outcomes, vals=vals, excs={})
    reqs = [Complete(poss[i], i, outcomes[i], vals[i]) for i in range(n)]
    sec = Complete(spos, -1, OK, sval)
    if second:
        reqs.append(sec)
    if pause_pos is not None:
        reqs.append(Req(GAP, pause_pos, sched.PAUSE, 0, 'p'))     # a pause racing with the completions; played again at idle
    run = sched.Run(Barrier, reqs, auto_resume=False, auto_play=pause_pos is not None)
    plain_apply = run.apply
    order = []        # actual completion order of the awaited futures (done-callbacks run FIFO)
    requested = []
    excs = {}
    deferred = []
    registered = set()

    def register():
        for i, it in enumerate(PLAN.get('items', [])):
            if i not in registered:
                registered.add(i)
                f = it.future() if isinstance(it, plumpy.Process) else it
                f.add_done_callback(lambda _f, i=i: order.append(i))

    def try_complete(r):
        """returns True when the completion has been carried out"""
        if r.idx == -1:
            f = PLAN.get('second_future')
            if f is None:
                return False
            if not f.done():
                f.set_result(r.val)
            return True
        if r.idx >= len(PLAN['items']):
            return False
        it = PLAN['items'][r.idx]
        if isinstance(it, plumpy.Process):
            if it.has_terminated():
                return True
            if r.outcome == OK:
                if it.state != S.WAITING:
                    return False
                it.resume(r.val)
            elif r.outcome == EXC:
                excs[r.idx] = Boom(f'child{r.idx}')
                it.fail(excs[r.idx], None)
            else:
                it.kill('child killed')
        else:
            if it.done():
                return True
            if r.outcome == OK:
                it.set_result(r.val)
            elif r.outcome == EXC:
                excs[r.idx] = Boom(f'fut{r.idx}')
                it.set_exception(excs[r.idx])
            else:
                it.cancel()
        requested.append(r.idx)
        return True

    def apply(r):
        if not isinstance(r, Complete):
            if r.act == sched.PAUSE and not run.proc.has_terminated():
                NOTES.witness('pause_racing_with_completions')
            return plain_apply(r)
        r.applied = True
        r.tick = run.tick
        r.pre = dict(terminated=run.proc.has_terminated())
        if not try_complete(r):
            deferred.append(r)
        run.sample()

    def pre_tick():
        register()
        for r in list(deferred):
            if try_complete(r):
                deferred.remove(r)

    run.apply = apply
    run.pre_tick = pre_tick
    try:
        run.go()
        for _ in range(6):   # let deferred completions (children not yet waiting) happen
            pre_tick()
            run.settle()
        p = run.proc
        facts = dict(n=n, kinds=['child' if c else 'future' for c in child[:n]], outcomes=[ONAMES[o] for o in outcomes[:n]], completion_order=list(order),
                     first_by_return=first_by_return, second_barrier=second)
        requested.extend(sorted(pre))
        excs.update(PLAN['excs'])
        if pre:
            NOTES.witness('item_complete_before_waiting')
        if [r for r in deferred if r.idx >= 0] or len(requested) != n or len(order) != n:
            raise Violation('harness_could_not_complete_all_items', **facts)
        failing = [i for i in order if i >= 0 and outcomes[i] != OK]
        if not failing:
            if 'b' not in SEEN:
                raise Violation('next_step_never_ran', state=str(p.state), **facts)
            if not all(SEEN['b']['done']):
                raise Violation('next_step_ran_before_all_completed', done=SEEN['b']['done'], **facts)
            for i in range(n):
                want = {'r': vals[i]} if child[i] else vals[i]
                got = SEEN['b']['ctx'].get(f'k{i}', '<missing>')
                if got != want:
                    raise Violation('context_value', key=f'k{i}', missing=isinstance(got, str) and got == '<missing>', **facts)
            if second:
                if 'c' not in SEEN or not SEEN['c']['second_done']:
                    raise Violation('second_barrier_not_respected', **facts)
                if SEEN['c']['ctx'].get('k0') != sval:
                    raise Violation('later_assignment_did_not_replace', **facts)
            if p.state != S.FINISHED:
                raise Violation('not_finished', state=str(p.state), **facts)
            NOTES.witness('all_succeeded')
        else:
            first = failing[0]
            if 'b' in SEEN:
                raise Violation('next_step_ran_despite_failure', **facts)
            if p.state != S.EXCEPTED:
                raise Violation('not_excepted_after_failed_item', state=str(p.state), **facts)
            e = p.exception()
            if outcomes[first] == EXC:
                # items that were already complete when they were handed over have no completion order among themselves
                accept = [excs[i] for i in failing if i in pre] if first in pre else [excs[first]]
                if not any(e is x for x in accept):
                    raise Violation('wrong_error', got=type(e).__name__, first_failing=first, **facts)
            elif child[first]:
                if not isinstance(e, plumpy.KilledError):
                    raise Violation('wrong_error', got=type(e).__name__, first_failing=first, **facts)
            else:
                if type(e).__name__ != 'CancelledError' and not isinstance(e, Exception):
                    raise Violation('wrong_error', got=type(e).__name__, first_failing=first, **facts)
            NOTES.witness('failed_item')
            if len(failing) > 1:
                NOTES.witness('two_failing_items')
        NOTES.nontrivial = True
        if n >= 2 and order != sorted(order):
            NOTES.witness('out_of_creation_order')
        if any(child[:n]):
            NOTES.witness('child_process_awaited')
        if run.loop.errors:
            NOTES.witness('exception_context_in_loop')
        NOTES.info = dict(facts, loop_errors=len(run.loop.errors))
    finally:
        kids = [it for it in PLAN.get('items', []) if isinstance(it, plumpy.Process)]
        run.finish()
        from vfw.drive import cleanup
        cleanup(run.loop, kids)


def items2(npos: int, c0: bool, c1: bool, o0: int, o1: int, v0: int, v1: int, p0: int, p1: int, fbr: bool, second: bool, sp: int, sv: int):
    assume(-1 <= p0 <= npos and -1 <= p1 <= npos and 0 <= sp <= npos)
    if not second:
        assume(sp == 0)
    _harness(2, [c0, c1], [pick(o0, 3), pick(o1, 3)], [v0, v1], [p0, p1], fbr, second, sp, sv)


def items3(npos: int, c0: bool, c1: bool, c2: bool, o0: int, o1: int, o2: int, v0: int, v1: int, v2: int, p0: int, p1: int, p2: int, fbr: bool):
    assume(-1 <= p0 <= npos and 0 <= p1 <= npos and 0 <= p2 <= npos)
    _harness(3, [c0, c1, c2], [pick(o0, 3), pick(o1, 3), pick(o2, 3)], [v0, v1, v2], [p0, p1, p2], fbr, False, 0, 0)


def items2p(npos: int, o0: int, o1: int, v0: int, v1: int, p0: int, p1: int, pp: int):
    """two awaited futures + a pause request at a symbolic position (the environment plays again when idle)"""
    assume(0 <= p0 <= npos and 0 <= p1 <= npos and 0 <= pp <= npos)
    _harness(2, [False, False], [pick(o0, 2), pick(o1, 2)], [v0, v1], [p0, p1], True, False, 0, 0, pause_pos=pp)


def items1(npos: int, c0: bool, o0: int, v0: int, p0: int, fbr: bool, second: bool, sp: int, sv: int):
    assume(-1 <= p0 <= npos and 0 <= sp <= npos)
    if not second:
        assume(sp == 0)
    _harness(1, [c0], [pick(o0, 3)], [v0], [p0], fbr, second, sp, sv)


HARNESSES = {'items1': items1, 'items2': items2, 'items3': items3, 'items2p': items2p}


def shards(tier):
    out = []
    b = 400 if tier == 'quick' else 2400
    np_ = 5 if tier == 'quick' else NPOS
    for o0 in range(2):
        for o1 in range(2):
            out.append(dict(name=f'items2p/o0={o0},o1={o1}', harness='items2p', fixed=dict(npos=np_, o0=o0, o1=o1), budget_s=b))
    for o0 in range(3):
        out.append(dict(name=f'items1/o0={o0}', harness='items1', fixed=dict(npos=np_, o0=o0), budget_s=b))
        for o1 in range(3):
            for c0 in (False, True):
                out.append(dict(name=f'items2/o0={o0},o1={o1},c0={c0}', harness='items2', fixed=dict(npos=np_, o0=o0, o1=o1, c0=c0), budget_s=b))
            if tier != 'quick':
                for o2 in range(3):
                    for c0 in (False, True):
                        out.append(dict(name=f'items3/o0={o0},o1={o1},o2={o2},c0={c0}', harness='items3', fixed=dict(npos=5, o0=o0, o1=o1, o2=o2, c0=c0), budget_s=b))
    if tier == 'quick':
        out.append(dict(name='items3/all-ok,futures', harness='items3', fixed=dict(npos=4, o0=0, o1=0, o2=0, c0=False, c1=False, c2=False), budget_s=b))
        out.append(dict(name='items3/one-fails', harness='items3', fixed=dict(npos=4, o0=0, o1=1, o2=0, c0=False, c1=True, c2=False), budget_s=b))
    return out


BOUNDS = {
    'quick': dict(items='1 or 2 awaited items in every mix of plain future / child process and value / failing / killed; 3 items in two fixed mixes',
                  completion=f'each item completes at its own symbolic position 0..5 (thorough: 0..{NPOS}) (hence every order and placement between loop callbacks); position -1 = a plain future that is already complete when it is handed over',
                  registration='first item by return value or by to_context() (symbolic), the others by to_context()', second_barrier='optional re-assignment of the first key by a later step', pause='two plain futures (value/fails each) with one pause request at a symbolic position, played again at idle'),
    'thorough': dict(items='1..3 items, every mix', completion='positions 0..10 for 1-2 items, 0..5 for 3 items', registration='as quick', second_barrier='for 1 and 2 items'),
}
OUTSIDE = ['plain futures that are cancelled (only child processes are killed)', 'more than 3 awaited items', 'pause/play racing with the completions (C06)', 'awaitables that are coroutines or other awaitable kinds']
RULE = 'paths over (item kinds, outcomes, completion positions, registration way, values); non-trivial when all items completed and the barrier oracle was evaluated'
SOLVER_ROLE = 'selector role for completion placement/order; data role for the delivered values (ctx compared symbolically)'
EXPLANATION = 'entry of the next outline step: all awaited items done and their results in ctx; first failure wins and stops the chain'
ASSUMPTIONS = ['among several items that have already failed when they are handed over, the error of any of them is accepted',
               'a child that is asked to succeed before it is waiting is resumed at the first later tick at which it waits',
               'exception contexts reported to the loop by a second failing item are recorded but are not part of C10']
REQUIRED_WITNESSES = ['item_complete_before_waiting', 'pause_racing_with_completions', 'all_succeeded', 'failed_item', 'two_failing_items', 'out_of_creation_order', 'child_process_awaited']
LEVEL_TEXT = 'bounded exhaustive symbolic exploration of number/kind/outcome of awaited items and of the position of every completion between loop callbacks, both registration ways, plus a second barrier'
