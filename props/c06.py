"""C06 - a wake-up is never lost to a concurrent pause or interruption."""
import vfw  # noqa: F401
import plumpy
from plumpy import process_states as ps
from plumpy.workchains import WorkChain
from vfw import programs, sched
from vfw.drive import pick
from vfw.engine import NOTES, Violation, assume
from vfw.sched import GAP, Req

PROPERTY_ID = 'C06'
LEVEL = 'exploration'
S = ps.ProcessState
NPOS = 10
PAUSE, PLAY, WAKE1, WAKE2 = range(4)   # schedule alphabet of this harness
ALPHA = ['pause', 'play', 'wake-up 1 (resume(v) / first awaited future)', 'wake-up 2 (resume(w) / second awaited future)']


class W1(plumpy.Process):
    """async run with one await point -> Wait(s1); async s1(v) with one await point -> returns v"""

    async def run(self):
        programs._rec(self, 'run', 'enter', ())
        import asyncio
        await asyncio.sleep(0)
        return ps.Wait(self.s1, 'waiting')

    async def s1(self, *args):
        programs._rec(self, 's1', 'enter', args)
        import asyncio
        await asyncio.sleep(0)
        return args[0] if args else None


class W2(WorkChain):
    """a -> ToContext(x=f1, y=f2) via return value and to_context(); b sees ctx.x, ctx.y"""

    @classmethod
    def define(cls, spec):
        super().define(spec)
        spec.outline(cls.a, cls.b)

    def a(self):
        programs._rec(self, 'a', 'enter', ())
        self.f1 = plumpy.Future()
        self.f2 = plumpy.Future()
        self.to_context(y=self.f2)
        return plumpy.ToContext(x=self.f1)

    def b(self):
        programs._rec(self, 'b', 'enter', (self.ctx.x, self.ctx.y))
        return 0


PROGS = {0: programs.P2, 1: W1, 2: programs.P8, 3: W2}


class WakeReq(Req):
    """a wake-up event: resume(value) for plain processes, completion of an awaited future for workchains"""

    def __init__(self, pos, which, val):
        super().__init__(GAP, pos, sched.RESUME, val, '')
        self.which = which
        self.valid = False


def _harness(prog, specs, v, w):
    """specs: list of (pos, letter) with letter in the alphabet above"""
    reqs = []
    for pos, letter in specs:
        if letter == PAUSE:
            reqs.append(Req(GAP, pos, sched.PAUSE, 0, 'p'))
        elif letter == PLAY:
            reqs.append(Req(GAP, pos, sched.PLAY, 0, ''))
        else:
            reqs.append(WakeReq(pos, letter, v if letter == WAKE1 else w))
    run = sched.Run(PROGS[prog], reqs, auto_resume=False, auto_play=True)
    is_wc = prog in (2, 3)
    orig_apply = run.apply

    def apply(r):
        if not isinstance(r, WakeReq):
            return orig_apply(r)
        p = run.proc
        r.applied = True
        r.tick = run.tick
        wf = getattr(getattr(p, '_state', None), '_waiting_future', None)
        r.pre = dict(state=p.state, paused=p.paused, terminated=p.has_terminated(), stepping=bool(getattr(p, '_stepping', False)),
                     pausing=getattr(p, '_pausing', None) is not None, killing=False,
                     waiting_future_done=bool(wf is not None and wf.done()), in_listener=False, trace_len=len(programs.TRACE),
                     n_entered=len(run.entered))
        run.events.append(('req', r, len(programs.TRACE)))
        if is_wc:
            fut = getattr(p, 'fut', None) if prog == 2 else getattr(p, 'f1' if r.which == WAKE1 else 'f2', None)
            if prog == 2 and r.which == WAKE2:
                fut = None
            if fut is not None and not fut.done():
                fut.set_result(r.val)
                r.valid = True
        else:
            if p.state == S.WAITING:
                try:
                    p.resume(r.val)
                    r.valid = True
                except Exception as e:  # noqa: BLE001
                    r.exc = e
        r.post_state = p.state
        r.post_paused = p.paused
        run.sample()

    run.apply = apply
    try:
        run.go()
        p = run.proc
        wakes = [r for r in reqs if isinstance(r, WakeReq) and r.valid]
        f = dict(
            wake_while_interruption_pending=any(r.pre['waiting_future_done'] and r.pre['pausing'] for r in wakes),
            wake_while_paused=any(r.pre['paused'] for r in wakes),
            wake_while_pause_pending=any(r.pre['pausing'] for r in wakes),
            prog=PROGS[prog].__name__,
        )
        if run.loop.errors:
            raise Violation('exception_in_loop_callback', first=run.loop.errors[0]['message'][:80],
                            exc=type(run.loop.errors[0]['exception']).__name__, **f)
        if not is_wc:
            if wakes:
                first = min(wakes, key=lambda r: (r.tick, reqs.index(r)))
                if p.state == S.WAITING or not p.has_terminated():
                    raise Violation('wakeup_lost', state=str(p.state), paused=p.paused, **f)
                got = [t for t in programs.TRACE if t[0] == 's1' and t[1] == 'enter']
                if len(got) != 1:
                    raise Violation('continuation_count', n=len(got), **f)
                if got[0][2] != (first.val,):
                    raise Violation('continuation_value', **f)
                if p.state != S.FINISHED or p.result() != first.val:
                    raise Violation('wrong_result', state=str(p.state), **f)
                NOTES.nontrivial = True
        else:
            need = 1 if prog == 2 else 2
            if len(wakes) == need:
                if p.state == S.WAITING or not p.has_terminated():
                    raise Violation('wakeup_lost', state=str(p.state), paused=p.paused, **f)
                got = [t for t in programs.TRACE if t[0] == 'b' and t[1] == 'enter']
                if len(got) != 1:
                    raise Violation('continuation_count', n=len(got), **f)
                vals = {r.which: r.val for r in wakes}
                want = (vals[WAKE1],) if prog == 2 else (vals[WAKE1], vals[WAKE2])
                if got[0][2] != want:
                    raise Violation('context_values', **f)
                if p.state != S.FINISHED:
                    raise Violation('wrong_final_state', state=str(p.state), **f)
                NOTES.nontrivial = True
        for r in wakes:
            if r.pre['waiting_future_done'] and r.pre['pausing']:
                NOTES.witness('wake_between_interruption_and_reexecution')
            if r.pre['paused']:
                NOTES.witness('wake_while_paused')
            if r.pre['stepping'] and not r.pre['pausing'] and not r.pre['paused']:
                NOTES.witness('wake_while_waiting_step_blocked')
        if is_wc and len(wakes) == 2:
            NOTES.witness('two_awaitables')
        NOTES.info = dict(prog=PROGS[prog].__name__, schedule=[(r.tick, ALPHA[0] if r.act == sched.PAUSE else ALPHA[1] if r.act == sched.PLAY else 'wake') for r in reqs if r.applied],
                          final=str(p.state))
    finally:
        run.finish()


def sched3(prog: int, v: int, w: int, p0: int, a0: int, p1: int, a1: int, p2: int, a2: int):
    assume(0 <= p0 <= p1 <= p2 <= NPOS)
    _harness(pick(prog, 4), [(p0, pick(a0, 4)), (p1, pick(a1, 4)), (p2, pick(a2, 4))], v, w)


def sched4(prog: int, v: int, w: int, p0: int, a0: int, p1: int, a1: int, p2: int, a2: int, p3: int, a3: int):
    assume(0 <= p0 <= p1 <= p2 <= p3 <= 6)
    _harness(pick(prog, 4), [(p0, pick(a0, 4)), (p1, pick(a1, 4)), (p2, pick(a2, 4)), (p3, pick(a3, 4))], v, w)


def sched5(prog: int, v: int, w: int, p0: int, a0: int, p1: int, a1: int, p2: int, a2: int, p3: int, a3: int, p4: int, a4: int):
    assume(0 <= p0 <= p1 <= p2 <= p3 <= p4 <= NPOS)
    _harness(pick(prog, 4), [(p0, pick(a0, 4)), (p1, pick(a1, 4)), (p2, pick(a2, 4)), (p3, pick(a3, 4)), (p4, pick(a4, 4))], v, w)


HARNESSES = {'sched3': sched3, 'sched4': sched4, 'sched5': sched5}


def shards(tier):
    out = []
    for prog in range(4):
        for a0 in range(4):
            if tier == 'quick':
                out.append(dict(name=f'sched3/prog={prog},a0={a0}', harness='sched3', fixed=dict(prog=prog, a0=a0), budget_s=300))
            else:
                out.append(dict(name=f'sched3/prog={prog},a0={a0}', harness='sched3', fixed=dict(prog=prog, a0=a0), budget_s=600))
                for a1 in range(4):
                    for a2 in range(4):
                        out.append(dict(name=f'sched4/prog={prog},a0={a0},a1={a1},a2={a2}', harness='sched4',
                                        fixed=dict(prog=prog, a0=a0, a1=a1, a2=a2), budget_s=1500))
    return out


BOUNDS = {
    'quick': dict(events='3 events over {pause, play, wake-up 1, wake-up 2} at gaps 0..%d; final play by the environment' % NPOS,
                  programs='P2 (sync wait), W1 (async steps around a wait), P8 (workchain awaiting 1 future), W2 (workchain awaiting 2 futures, both registration ways)',
                  data='resume / future values: int (symbolic)'),
    'thorough': dict(events='3 events at gaps 0..%d and 4 events at gaps 0..6 (all programs)' % NPOS, programs='P2 W1 P8 W2', data='int'),
}
OUTSIDE = ['kill/fail racing with the wake-up (C04/C02)', 'child processes as awaitables (C10)', 'more events than the bound', 'real threads']
RULE = 'paths over (program, events with positions, values); non-trivial when a valid wake-up happened (resume on a WAITING process / all awaited futures completed) so the no-lost-wake-up oracle applied'
SOLVER_ROLE = 'selector role for the interleaving; data role for the delivered values (continuation arguments / ctx compared symbolically)'
EXPLANATION = 'every interleaving of wake-up events with pause/play between any two loop callbacks; afterwards the process must have continued exactly once with the first value'
ASSUMPTIONS = ['the environment plays a paused process whenever the loop is idle (final play); it never resumes by itself in this harness']
REQUIRED_WITNESSES = ['wake_between_interruption_and_reexecution', 'wake_while_paused', 'wake_while_waiting_step_blocked', 'two_awaitables']
LEVEL_TEXT = ('bounded exhaustive symbolic exploration of the order and placement of wake-up events (resume, completion of each awaited future) '
              'relative to pause/play: never WAITING for ever, first value delivered exactly once, ctx filled, no exception inside a loop callback')
