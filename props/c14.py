"""C14 - persisters are a snapshot store keyed by (pid, tag), equivalent to each other."""
import copy
import shutil
import tempfile
import uuid

import vfw  # noqa: F401
import plumpy
from plumpy import process_states as ps
from plumpy.mixins import ContextMixin
from vfw.drive import cleanup, fresh_loop, pick
from vfw.engine import NOTES, Violation, assume

PROPERTY_ID = 'C14'
LEVEL = 'exploration'
S = ps.ProcessState
OPS = ['save', 'load', 'list', 'list_pid', 'delete', 'delete_pid', 'advance']
SAVE, LOAD, LIST, LIST_PID, DELETE, DELETE_PID, ADVANCE = range(7)
PID_KINDS = {
    0: [1, 12],                                        # ints, one a decimal prefix of the other
    1: [uuid.UUID(int=1), uuid.UUID(int=2)],
    2: ['p', 'pq'],                                    # separator-free strings, one a prefix of the other
}
TAG_KINDS = {0: [None, 0, 1], 1: [None, 'a', 'ab'], 2: [None, uuid.UUID(int=7), uuid.UUID(int=8)]}


class CP(ContextMixin, plumpy.Process):
    """process with a context that keeps changing as it advances (ContextMixin state is saved by reference)"""

    def run(self):
        self.ctx.n = 1
        self.ctx.l = [1]
        self.out('o', 1)
        return ps.Wait(self.s1)

    def s1(self, v=None):
        self.ctx.n = 2
        self.ctx.l.append(2)
        self.ctx.d = {'k': [v]}
        return ps.Wait(self.s2)

    def s2(self, v=None):
        self.ctx.n = 3
        self.ctx.l.append(3)
        self.ctx.d['k'].append(v)
        return v

    @classmethod
    def define(cls, spec):
        super().define(spec)
        spec.outputs.dynamic = True


def snapshot(proc):
    return copy.deepcopy(dict(plumpy.Bundle(proc)))


def as_plain(bundle):
    return copy.deepcopy(dict(bundle))


def _history(pkind, tkind, ops):
    loop = fresh_loop()
    pids = PID_KINDS[pkind]
    tags = TAG_KINDS[tkind]
    procs = [CP(pid=pids[i], loop=loop, inputs=None) for i in range(2)]
    tasks = [loop.create_task(p.step_until_terminated()) for p in procs]
    d = tempfile.mkdtemp(prefix='vfw_c14_')
    model = {}
    advanced_after_save = False
    loaded_after_advance = False
    try:
        pk = plumpy.PicklePersister(d)
        im = plumpy.InMemoryPersister()
        persisters = (('pickle', pk), ('inmemory', im))
        for n, (op, pi, ti) in enumerate(ops):
            pid, tag, proc = pids[pi], tags[ti], procs[pi]
            facts = dict(step=n, op=OPS[op], history=[(OPS[o], pids.index(pids[p]), t) for o, p, t in ops], pid_kind=pkind, tag_kind=tkind)
            if op == SAVE:
                if proc.has_terminated():
                    continue  # finished processes are saved as well by plumpy, but keep histories about live ones
                snap = snapshot(proc)
                for name, per in persisters:
                    try:
                        per.save_checkpoint(proc, tag)
                    except Exception as e:  # noqa: BLE001
                        raise Violation('save_raised', persister=name, err=type(e).__name__, **facts)
                model[(pid, tag)] = snap
            elif op == LOAD:
                for name, per in persisters:
                    try:
                        got = ('ok', as_plain(per.load_checkpoint(pid, tag)))
                    except Exception:  # noqa: BLE001
                        got = ('raise', None)
                    want = ('ok', model[(pid, tag)]) if (pid, tag) in model else ('raise', None)
                    if got[0] != want[0]:
                        raise Violation('load_presence_differs', persister=name, got=got[0], want=want[0], **facts)
                    if got[0] == 'ok':
                        if got[1] != want[1]:
                            diff = sorted(k for k in set(got[1]) | set(want[1]) if got[1].get(k) != want[1].get(k))
                            raise Violation('loaded_snapshot_differs', persister=name, keys=diff,
                                            live_process_advanced_since_save=advanced_after_save, **facts)
                        if advanced_after_save:
                            loaded_after_advance = True
            elif op in (LIST, LIST_PID):
                for name, per in persisters:
                    got = per.get_checkpoints() if op == LIST else per.get_process_checkpoints(pid)
                    want = [plumpy.PersistedCheckpoint(p, t) for (p, t) in model if op == LIST or p == pid]
                    if sorted(map(repr, got)) != sorted(map(repr, want)):
                        raise Violation('listing_differs', persister=name, got=sorted(map(repr, got)), want=sorted(map(repr, want)), **facts)
            elif op == DELETE:
                for name, per in persisters:
                    try:
                        per.delete_checkpoint(pid, tag)
                    except Exception as e:  # noqa: BLE001
                        raise Violation('delete_raised', persister=name, err=type(e).__name__, **facts)
                model.pop((pid, tag), None)
            elif op == DELETE_PID:
                for name, per in persisters:
                    try:
                        per.delete_process_checkpoints(pid)
                    except Exception as e:  # noqa: BLE001
                        raise Violation('delete_raised', persister=name, err=type(e).__name__, **facts)
                for k in [k for k in model if k[0] == pid]:
                    del model[k]
            elif op == ADVANCE:
                loop.run_all(200)
                if proc.state == S.WAITING:
                    proc.resume(n)
                    loop.run_all(200)
                if any(k[0] == pid for k in model):
                    advanced_after_save = True
        # final cross-check of the complete content
        for name, per in persisters:
            got = sorted(map(repr, per.get_checkpoints()))
            want = sorted(repr(plumpy.PersistedCheckpoint(p, t)) for (p, t) in model)
            if got != want:
                raise Violation('final_listing_differs', persister=name, got=got, want=want, pid_kind=pkind, tag_kind=tkind,
                                history=[(OPS[o], p, t) for o, p, t in ops])
            for (p, t), snap in model.items():
                if as_plain(per.load_checkpoint(p, t)) != snap:
                    raise Violation('final_snapshot_differs', persister=name, pid_kind=pkind, tag_kind=tkind,
                                    live_process_advanced_since_save=advanced_after_save, history=[(OPS[o], p_, t_) for o, p_, t_ in ops])
        NOTES.nontrivial = True
        if advanced_after_save and model:
            NOTES.witness('live_process_advanced_after_save')
        if loaded_after_advance:
            NOTES.witness('load_after_advance')
        if any(o in (DELETE, DELETE_PID) for o, _, _ in ops) and any(o == SAVE for o, _, _ in ops):
            NOTES.witness('save_and_delete')
        NOTES.info = dict(history=[(OPS[o], p, t) for o, p, t in ops], pid_kind=pkind, tag_kind=tkind)
    finally:
        shutil.rmtree(d, ignore_errors=True)
        cleanup(loop, procs)


NTAGS = [3]


def _op(o, p, t):
    return (pick(o, len(OPS)), pick(p, 2), pick(t, NTAGS[0]))


def hist3(ntags: int, pkind: int, tkind: int, o0: int, p0: int, t0: int, o1: int, p1: int, t1: int, o2: int, p2: int, t2: int):
    NTAGS[0] = ntags
    _history(pick(pkind, 3), pick(tkind, 3), [_op(o0, p0, t0), _op(o1, p1, t1), _op(o2, p2, t2)])


def hist4(ntags: int, pkind: int, tkind: int, o0: int, p0: int, t0: int, o1: int, p1: int, t1: int, o2: int, p2: int, t2: int, o3: int, p3: int, t3: int):
    NTAGS[0] = ntags
    _history(pick(pkind, 3), pick(tkind, 3), [_op(o0, p0, t0), _op(o1, p1, t1), _op(o2, p2, t2), _op(o3, p3, t3)])


def hist5(pkind: int, tkind: int, o0: int, p0: int, t0: int, o1: int, p1: int, t1: int, o2: int, p2: int, t2: int, o3: int, p3: int, t3: int,
          o4: int, p4: int, t4: int):
    _history(pick(pkind, 3), pick(tkind, 3), [_op(o0, p0, t0), _op(o1, p1, t1), _op(o2, p2, t2), _op(o3, p3, t3), _op(o4, p4, t4)])


def filename(p1: str, t1: str, n1: bool, p2: str, t2: str, n2: bool):
    """PicklePersister.pickle_filename is injective on separator-free string pids / tags (None tag allowed)"""
    for x in (p1, t1, p2, t2):
        assume(1 <= len(x) <= 3 and '.' not in x and '/' not in x)
    a = plumpy.PicklePersister.pickle_filename(p1, None if n1 else t1)
    b = plumpy.PicklePersister.pickle_filename(p2, None if n2 else t2)
    same_key = p1 == p2 and n1 == n2 and (n1 or t1 == t2)
    if not same_key and a == b:
        raise Violation('filename_collision')
    if same_key and a != b:
        raise Violation('filename_not_deterministic')
    NOTES.nontrivial = True
    NOTES.witness('filename_checked')


HARNESSES = {'hist3': hist3, 'hist4': hist4, 'hist5': hist5, 'filename': filename}


def shards(tier):
    out = [dict(name='filename', harness='filename', fixed={}, budget_s=300 if tier == 'quick' else 1800)]
    # histories: the first operation is a save of process 0 (anything before the first save is trivial), rest symbolic
    for pk in range(3):
        for o1 in range(len(OPS)):
            if tier == 'quick':
                out.append(dict(name=f'hist3/pk={pk},o1={o1}', harness='hist3',
                                fixed=dict(ntags=2, pkind=pk, tkind=pk, o0=SAVE, p0=0, o1=o1), budget_s=400))
            else:
                out.append(dict(name=f'hist3/pk={pk},o1={o1}', harness='hist3',
                                fixed=dict(ntags=3, pkind=pk, tkind=pk, o0=SAVE, p0=0, o1=o1), budget_s=1500))
                if pk == 0:
                    for o2 in range(len(OPS)):
                        out.append(dict(name=f'hist4/pk={pk},o1={o1},o2={o2}', harness='hist4',
                                        fixed=dict(ntags=2, pkind=pk, tkind=pk, o0=SAVE, p0=0, o1=o1, o2=o2), budget_s=3000))
    return out


BOUNDS = {
    'quick': dict(history='save(p0, any tag) followed by 2 operations over ' + str(OPS) + ' x 2 processes x 2 tags (None, one value)', ids='ints (1, 12) / UUIDs / strings (p, pq); tags None + two of the same kind',
                  process='context process advancing CREATED -> WAITING -> WAITING -> FINISHED between operations', filename='pickle_filename injective for symbolic separator-free strings of length 1..3'),
    'thorough': dict(history='save followed by 2 operations with 3 tags (all id kinds) or by 3 operations with 2 tags (integer ids)', ids='as quick', process='as quick', filename='as quick'),
}
OUTSIDE = ['histories longer than the bound', 'ids/tags containing the separator "." or a path separator', 'mixed id kinds in one history', 'concurrent access, file system faults']
RULE = 'paths over (id kind, operations with pid/tag indices); non-trivial when both persisters and the dictionary model were compared over the whole history'
SOLVER_ROLE = 'selector role for histories (exhaustive, pruned); data role (z3 strings) for the file-name injectivity lemma'
EXPLANATION = 'lock-step execution of PicklePersister (real files in a per-path temp dir), InMemoryPersister and a dict model'
ASSUMPTIONS = ['pickle needs concrete data: process content is concrete here, only the history is symbolic', 'temporary directory per path, removed at the end of the path']
REQUIRED_WITNESSES = ['live_process_advanced_after_save', 'load_after_advance', 'save_and_delete', 'filename_checked']
LEVEL_TEXT = ('bounded exhaustive symbolic exploration of operation histories against both persisters and a dictionary model in lock-step (results, raises, loaded content vs snapshot at save time), '
              'plus a string-solver lemma that pickle file names are injective on separator-free keys')
