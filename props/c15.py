"""C15 - exposing ports copies exactly the selected ports, independently of the source."""
import vfw  # noqa: F401
import plumpy
from plumpy.ports import InputPort, OutputPort, Port, PortNamespace
from plumpy.process_spec import ProcessSpec
from vfw.drive import pick
from vfw.engine import NOTES, Violation, assume

PROPERTY_ID = 'C15'
LEVEL = 'exploration'
ALPHABET = 'abcxn.'
LEAVES = ['a', 'ab.x', 'ab.y', 'abc.x', 'abc.n.z', 'b.a']
NAMESPACES = ['ab', 'abc', 'abc.n', 'b']
TARGETS = [None, 't', 't.u']


def validator_v(value, port):
    return None


def build_source(outputs: bool):
    spec = ProcessSpec()
    add = spec.output if outputs else spec.input
    addns = spec.output_namespace if outputs else spec.input_namespace
    addns('ab', help='ns ab', required=False, dynamic=True, valid_type=int)
    addns('abc', help='ns abc', required=True)
    addns('abc.n', help='ns abc.n', required=False)
    addns('b', help='ns b', required=True)
    kw = {} if outputs else {'default': 5}
    add('a', valid_type=int, help='port a', required=False)
    add('ab.x', valid_type=int, help='port ab.x', **kw)
    add('ab.y', valid_type=str, required=False)
    add('abc.x', valid_type=(int, str), validator=validator_v)
    add('abc.n.z', required=True)
    add('b.a', valid_type=float)
    return spec


def build_dest(outputs: bool):
    spec = ProcessSpec()
    add = spec.output if outputs else spec.input
    addns = spec.output_namespace if outputs else spec.input_namespace
    add('own', valid_type=str, help='own port')
    addns('t', help='ns t', required=True)
    add('t.keep', valid_type=int)
    return spec


class Stub:
    def __init__(self, spec):
        self._spec = spec

    def spec(self):
        return self._spec


def tree(ns, prefix=''):
    """{path: port} for all leaves and {path: namespace} for all namespaces below ns"""
    leaves, spaces = {}, {}
    for name, port in ns.items():
        path = prefix + name
        if isinstance(port, PortNamespace):
            spaces[path] = port
            sub_l, sub_s = tree(port, path + '.')
            leaves.update(sub_l)
            spaces.update(sub_s)
        else:
            leaves[path] = port
    return leaves, spaces


def port_attrs(p):
    d = dict(cls=type(p).__name__, name=p.name, valid_type=p.valid_type, help=p.help, required=p.required, validator=p.validator)
    if isinstance(p, InputPort):
        d['default'] = p.default if p.has_default() else '<none>'
    return d


def ns_attrs(n):
    return dict(valid_type=n.valid_type, help=n.help, required=n.required, validator=n.validator, dynamic=n.dynamic,
                populate_defaults=n.populate_defaults, default=n.default)


def well_formed(r, maxlen=5):
    assume(1 <= len(r) <= maxlen)
    for ch in r:
        assume(ch in ALPHABET)
    assume(r[0] != '.' and r[len(r) - 1] != '.')
    assume('..' not in r)


def matches(path, rule):
    """the rule selects the port path: same path, or the rule names one of its enclosing namespaces"""
    return path == rule or path.startswith(rule + '.')


def _harness(outputs, mode, rules, target, opt_dynamic, opt_required, set_dynamic, set_required, mutate):
    src = build_source(outputs)
    dst = build_dest(outputs)
    src_ns = src.outputs if outputs else src.inputs
    dst_ns = dst.outputs if outputs else dst.inputs
    before_leaves, before_spaces = tree(dst_ns)
    before_attrs = {p: port_attrs(q) for p, q in before_leaves.items()}
    src_leaves, src_spaces = tree(src_ns)
    src_snapshot = {p: port_attrs(q) for p, q in src_leaves.items()}
    src_ns_snapshot = {p: ns_attrs(q) for p, q in src_spaces.items()}
    options = {}
    if set_dynamic:
        options['dynamic'] = opt_dynamic
    if set_required:
        options['required'] = opt_required
    kwargs = dict(namespace=TARGETS[target], namespace_options=dict(options))
    if mode == 1:
        kwargs['include'] = list(rules)
    elif mode == 2:
        kwargs['exclude'] = list(rules)
    expose = dst.expose_outputs if outputs else dst.expose_inputs
    expose(Stub(src), **kwargs)

    tprefix = '' if TARGETS[target] is None else TARGETS[target] + '.'
    # model: which leaves are selected
    if mode == 1:
        selected = [p for p in LEAVES if any(matches(p, r) for r in rules)]
    elif mode == 2:
        selected = [p for p in LEAVES if not any(matches(p, r) for r in rules)]
    else:
        selected = list(LEAVES)
    facts = dict(mode=['all', 'include', 'exclude'][mode], target=TARGETS[target], outputs=outputs)
    after_leaves, after_spaces = tree(dst_ns)
    expected_paths = set(before_leaves) | {tprefix + p for p in selected}
    got_paths = set(after_leaves)
    extra = sorted(got_paths - expected_paths)
    missing = sorted(expected_paths - got_paths)
    if extra:
        prefix_only = all(any((e[len(tprefix):].split('.')[0] != r.split('.')[0]) and r.startswith(e[len(tprefix):].split('.')[0])
                              for r in rules) for e in extra) if mode == 1 else False
        raise Violation('unselected_ports_exposed', extra=extra, rules=list(rules), selected_only_by_name_prefix=prefix_only, **facts)
    if missing:
        raise Violation('selected_ports_missing', missing=missing, rules=list(rules), **facts)
    # exposed leaves carry the source port's attributes; pre-existing ports are untouched
    for p in selected:
        if port_attrs(after_leaves[tprefix + p]) != src_snapshot[p]:
            raise Violation('exposed_port_attributes_differ', port=p, **facts)
        if after_leaves[tprefix + p] is src_leaves[p]:
            raise Violation('exposed_port_is_shared_object', port=p, **facts)
    for p, a in before_attrs.items():
        if (tprefix + 'x') and p in after_leaves and port_attrs(after_leaves[p]) != a and p not in {tprefix + s for s in selected}:
            raise Violation('existing_port_changed', port=p, **facts)
    # namespaces holding selected leaves exist with the source namespace's properties; the target namespace has the
    # source root's properties unless overridden
    for nsp in NAMESPACES:
        if any(s.startswith(nsp + '.') for s in selected):
            if tprefix + nsp not in after_spaces:
                raise Violation('namespace_missing', namespace=nsp, **facts)
            if ns_attrs(after_spaces[tprefix + nsp]) != src_ns_snapshot[nsp]:
                raise Violation('namespace_properties_differ', namespace=nsp, **facts)
            if after_spaces[tprefix + nsp] is src_spaces[nsp]:
                raise Violation('namespace_is_shared_object', namespace=nsp, **facts)
    troot = dst_ns if TARGETS[target] is None else dst_ns.get_port(TARGETS[target])
    want = ns_attrs(src_ns)
    want.update(options)
    if ns_attrs(troot) != want:
        raise Violation('target_namespace_properties', **facts)
    # independence: mutate one side, the other must not change
    if selected:
        p = selected[0]
        if mutate == 0:
            src_leaves[p].required = not src_leaves[p].required
            src_leaves[p].help = 'changed'
            if port_attrs(after_leaves[tprefix + p]) != src_snapshot[p]:
                raise Violation('source_change_shows_in_copy', port=p, **facts)
        elif mutate == 1:
            after_leaves[tprefix + p].required = not after_leaves[tprefix + p].required
            after_leaves[tprefix + p].valid_type = bytes
            if port_attrs(src_leaves[p]) != src_snapshot[p]:
                raise Violation('copy_change_shows_in_source', port=p, **facts)
        elif mutate == 2 and '.' in p:
            nsp = p.rsplit('.', 1)[0]
            src_spaces[nsp]['added'] = (OutputPort if outputs else InputPort)('added')
            src_spaces[nsp].dynamic = not src_spaces[nsp].dynamic
            l2, s2 = tree(dst_ns)
            if tprefix + nsp + '.added' in l2 or ns_attrs(s2[tprefix + nsp]) != src_ns_snapshot[nsp]:
                raise Violation('source_namespace_change_shows_in_copy', namespace=nsp, **facts)
        elif mutate == 3 and '.' in p:
            nsp = p.rsplit('.', 1)[0]
            del after_spaces[tprefix + nsp][p.rsplit('.', 1)[1]]
            after_spaces[tprefix + nsp].required = not after_spaces[tprefix + nsp].required
            l2, s2 = tree(src_ns)
            if p not in l2 or ns_attrs(s2[nsp]) != src_ns_snapshot[nsp]:
                raise Violation('copy_namespace_change_shows_in_source', namespace=nsp, **facts)
    NOTES.nontrivial = True
    if mode == 1 and any(any(r != l and l.startswith(r) and not matches(l, r) for l in LEAVES + NAMESPACES) for r in rules):
        NOTES.witness('rule_is_proper_string_prefix_of_another_name')
    if mode == 1 and any('.' in r for r in rules):
        NOTES.witness('namespaced_include_rule')
    if mode == 2 and any('.' in r for r in rules):
        NOTES.witness('namespaced_exclude_rule')
    if selected and len(selected) < len(LEAVES):
        NOTES.witness('proper_subset_selected')
    NOTES.info = dict(rules=list(rules), selected=selected, **facts)


def one_rule(outputs: bool, mode: int, r0: str, target: int, od: bool, orq: bool, sd: bool, sr: bool, mutate: int):
    m = pick(mode, 3)
    if m == 0:
        assume(r0 == 'a')
    else:
        well_formed(r0)
    _harness(outputs, m, [r0] if m else [], pick(target, 3), od, orq, sd, sr, pick(mutate, 4))


def two_rules(outputs: bool, mode: int, r0: str, r1: str, target: int, mutate: int, maxlen: int):
    m = pick(mode, 2) + 1
    ml = pick(maxlen, 6)
    well_formed(r0, ml)
    well_formed(r1, ml)
    assume(r0 != r1 and not matches(r0, r1) and not matches(r1, r0))
    _harness(outputs, m, [r0, r1], pick(target, 3), False, False, False, False, pick(mutate, 4))


def both(r0: str, r1: str):
    """include together with exclude is rejected"""
    well_formed(r0)
    well_formed(r1)
    src = build_source(False)
    dst = build_dest(False)
    try:
        dst.expose_inputs(Stub(src), include=[r0], exclude=[r1])
    except ValueError:
        NOTES.nontrivial = True
        NOTES.witness('include_and_exclude_rejected')
        return
    raise Violation('include_and_exclude_accepted')


HARNESSES = {'one_rule': one_rule, 'two_rules': two_rules, 'both': both}


def shards(tier):
    out = []
    b = 400 if tier == 'quick' else 3000
    for mode in range(3):
        for target in range(3):
            for outputs in (False, True):
                if tier == 'quick' and outputs and target != 1:
                    continue
                for mutate in range(4):
                    if mode == 0 and mutate > 0 and tier == 'quick':
                        continue
                    out.append(dict(name=f'one_rule/mode={mode},target={target},outputs={outputs},mutate={mutate}', harness='one_rule',
                                    fixed=dict(mode=mode, target=target, outputs=outputs, mutate=mutate), budget_s=b))
    for mode in range(2):
        for target in range(3):
            for mutate in range(4):
                if tier == 'quick' and (target != 1 or mutate not in (0, 2)):
                    continue
                out.append(dict(name=f'two_rules/mode={mode},target={target},mutate={mutate}', harness='two_rules',
                                fixed=dict(mode=mode, target=target, mutate=mutate, outputs=False, maxlen=3 if tier == 'quick' else 4), budget_s=b))
    out.append(dict(name='both', harness='both', fixed={}, budget_s=b))
    return out


BOUNDS = {
    'quick': dict(rules='1 rule (all targets, inputs; outputs for one target) or 2 rules of length <= 3 (target t, 2 mutation kinds): symbolic strings, length <= 5 over the alphabet "abcxn.", well-formed, neither an ancestor of the other',
                  source_tree=LEAVES, targets=TARGETS, namespace_options='dynamic / required each absent or overridden with a symbolic bool (1-rule harness)', mutation='4 kinds (port/namespace, either side)'),
    'thorough': dict(rules='1 rule (len <= 5) or 2 rules (len <= 4), every target x mutation x inputs/outputs combination', source_tree=LEAVES, targets=TARGETS,
                     namespace_options='as quick', mutation='4 kinds'),
}
OUTSIDE = ['rule strings longer than 5 characters or with other letters', 'more than 2 rules', 'port names other than the fixed prefix-related family (names are dict keys: concrete)',
           'rule sets where one rule is an ancestor of another (excluded by the property)', 'mutation of default objects in place']
RULE = 'paths over (rule strings, include/exclude, target namespace, option overrides, mutation kind); non-trivial when the expose call returned and the whole tree was compared with the model'
SOLVER_ROLE = 'data role: the rule strings are z3 strings flowing through absorb()/strip_namespace(); the solver decides startswith/slice/membership for all strings of the bounded language and produces e.g. the prefix-collision rule by itself'
EXPLANATION = 'destination port tree vs an independent path-based selection model; attributes; independence under mutation'
ASSUMPTIONS = ['ProcessSpec used through a stub class exposing spec() (expose_* only calls process_class.spec())']
REQUIRED_WITNESSES = ['rule_is_proper_string_prefix_of_another_name', 'namespaced_include_rule', 'namespaced_exclude_rule', 'proper_subset_selected', 'include_and_exclude_rejected']
LEVEL_TEXT = ('bounded symbolic exploration with symbolic rule STRINGS: for every well-formed include/exclude rule (set) of the bounded language the exposed port tree equals a path-based '
              'selection model, carries the source properties, leaves other ports alone and is independent of the source under mutation; include+exclude is rejected')
