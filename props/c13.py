"""C13 - a step's return value alone decides what happens next, with exact arguments.

Symbolic: the command returned by every step of a chain (selector), its positional and
keyword arguments (symbolic int / str flowing through the real Continue/Wait/Running/
Waiting code), the resume value, the final command with its result/code/message, and a
up to three positions among all state entries at which the process is bundled, deep-copied, abandoned and
restored in a fresh loop (deepcopy medium: the data stays symbolic through save/load).
"""
from __future__ import annotations

import copy

import vfw  # noqa: F401
import plumpy
from plumpy import process_states as ps
from plumpy.base.state_machine import StateEventHook
from plumpy.process_comms import MESSAGE_TEXT_KEY, MessageBuilder
from vfw.drive import cleanup, fresh_loop, pick
from vfw.engine import NOTES, Violation, assume

PROPERTY_ID = 'C13'
LEVEL = 'exploration'

PLAN: dict = {}
REC: list = []

NKINDS = 7  # command kinds, see make_cmd
NFIN = 6


class Chain(plumpy.Process):
    """Generated chain: run -> s1 -> s2 -> s3; every step records what it received."""

    def run(self):
        return self._step(0)

    def s1(self, *args, **kwargs):
        return self._step(1, *args, **kwargs)

    def s2(self, *args, **kwargs):
        return self._step(2, *args, **kwargs)

    def s3(self, *args, **kwargs):
        return self._step(3, *args, **kwargs)

    def _step(self, k, /, *args, **kwargs):
        REC.append((k, args, kwargs))
        if k == PLAN['n']:
            return self._final()
        kind, a, s = PLAN['cmds'][k]
        nxt = getattr(self, f's{k + 1}')
        if kind == 0:
            return ps.Continue(nxt, a)
        if kind == 1:
            return ps.Continue(nxt, a, kw=s)
        if kind == 2:
            return ps.Continue(nxt)
        if kind == 3 or kind == 4:
            return ps.Wait(nxt)
        if kind == 5:
            return ps.Wait(nxt, s, a)
        return ps.Continue(nxt, a, s)

    def _final(self):
        fin, r, s = PLAN['fin']
        if fin == 0:
            return r
        if fin == 1:
            return plumpy.UnsuccessfulResult(r)
        if fin == 2:
            return ps.Kill(MessageBuilder.kill(s))
        if fin == 3:
            return ps.Stop(r, True)
        if fin == 4:
            return ps.Stop(r, False)
        return s


def expected_call(kind, a, s):
    if kind == 0:
        return (a,), {}
    if kind == 1:
        return (a,), {'kw': s}
    if kind == 2:
        return (), {}
    if kind == 3:
        return (a,), {}
    if kind == 4:
        return (), {}
    if kind == 5:
        return (s,), {}
    return (a, s), {}


def entry_first_step(kinds, j):
    """state entries of a full run are C, R0, [W0], R1, [W1], ..., Rn.  A process restored from the snapshot
    taken at entry j executes steps first_step..n."""
    seq = [('C', 0)]
    for k, kind in enumerate(kinds):
        seq.append(('R', k))
        if kind in (3, 4, 5):
            seq.append(('W', k + 1))
    seq.append(('R', len(kinds)))
    return seq[j][1], seq[j][0]


def _run_one(n, cmds, fin, bundle, base_entry, first_step, want_snaps):
    """Run a fresh (bundle None) or restored process to termination; snapshot (deep-copied Bundle) at the
    absolute state-entry indices in want_snaps, taken inside the ENTERED_STATE callback like a persister would."""
    del REC[:]
    loop = fresh_loop()
    snaps = {}
    entry = [base_entry]
    if bundle is None:
        proc = Chain(loop=loop)
    else:
        proc = bundle.unbundle(plumpy.LoadSaveContext(loop=loop))
    if entry[0] in want_snaps:
        snaps[entry[0]] = copy.deepcopy(plumpy.Bundle(proc))

    def cb(_sm, _hook, _from):
        entry[0] += 1
        if entry[0] in want_snaps and not proc.has_terminated():
            snaps[entry[0]] = copy.deepcopy(plumpy.Bundle(proc))

    proc.add_state_event_callback(StateEventHook.ENTERED_STATE, cb)
    loop.create_task(proc.step_until_terminated())
    resumed_for = set()
    try:
        for _guard in range(200):
            if proc.has_terminated():
                break
            if loop.pending():
                loop.step()
                continue
            # quiescent: the environment delivers the planned resume
            if proc.state == ps.ProcessState.WAITING:
                k = first_step + len(REC) - 1  # step that returned the Wait
                if k in resumed_for or k >= n or k < 0:
                    raise Violation('stuck_waiting', step=k)
                resumed_for.add(k)
                kind, a, s = cmds[k]
                if kind == 3:
                    proc.resume(a)
                elif kind == 4:
                    proc.resume()
                elif kind == 5:
                    proc.resume(s)
                else:
                    raise Violation('unexpected_wait', step=k, cmd=kind)
                continue
            raise Violation('stuck', state=str(proc.state))

        restored = bundle is not None
        if not proc.has_terminated():
            raise Violation('not_terminated', state=str(proc.state))
        # oracle 1: every continuation received exactly what was returned
        if len(REC) != n + 1 - first_step:
            raise Violation('wrong_step_count', got=len(REC), expected=n + 1 - first_step, restored=restored)
        for i, (step, gargs, gkw) in enumerate(REC):
            k = first_step + i
            if step != k:
                raise Violation('wrong_step_order', got=step, expected=k, restored=restored)
            if k == 0:
                eargs, ekw = (), {}
            else:
                kind, a, s = cmds[k - 1]
                eargs, ekw = expected_call(kind, a, s)
            if tuple(gargs) != eargs:
                raise Violation('wrong_args', step=k, restored=restored, n_got=len(gargs), n_expected=len(eargs))
            if dict(gkw) != ekw:
                raise Violation('wrong_kwargs', step=k, restored=restored, got_keys=sorted(gkw), expected_keys=sorted(ekw))
        # oracle 2: the final command decides the outcome
        fk, r, s = fin
        st = proc.state
        if fk == 2:
            if st != ps.ProcessState.KILLED:
                raise Violation('final_state', fin=fk, state=str(st), restored=restored)
            if proc.killed_msg() != MessageBuilder.kill(s) or proc.killed_msg()[MESSAGE_TEXT_KEY] != s:
                raise Violation('kill_msg', restored=restored)
            if not proc.killed():
                raise Violation('killed_flag')
        else:
            if st != ps.ProcessState.FINISHED:
                raise Violation('final_state', fin=fk, state=str(st), restored=restored)
            want = s if fk == 5 else r
            if proc.result() != want:
                raise Violation('wrong_result', fin=fk, restored=restored)
            ok = fk in (0, 3, 5)
            if proc.successful() != ok or proc.is_successful != ok:
                raise Violation('wrong_success_flag', fin=fk, restored=restored)
        return snaps
    finally:
        cleanup(loop, [proc])


def _run(n, cmds, fin, points):
    """cmds: list of (kind, a, s) concrete kinds with symbolic data; fin: (kind, r, s); points: increasing
    absolute state-entry indices at which the process is checkpointed and later restored (chained)."""
    PLAN.clear()
    PLAN.update(n=n, cmds=cmds, fin=fin)
    kinds = [c[0] for c in cmds]
    snaps = _run_one(n, cmds, fin, None, 0, 0, set(points[:1]))
    for i, j in enumerate(points):
        if j not in snaps:
            raise Violation('snapshot_missing', entry=j)
        first_step, what = entry_first_step(kinds, j)
        snaps = _run_one(n, cmds, fin, snaps[j], j, first_step, set(points[i + 1:i + 2]))
        if what == 'R' and first_step >= 1:
            NOTES.witness('restored_between_return_and_next_step')
        if what == 'W':
            NOTES.witness('restored_while_waiting')
    NOTES.nontrivial = True
    if any(k in (3, 4, 5) for k in kinds):
        NOTES.witness('wait_resume')
    if any(k == 1 for k in kinds):
        NOTES.witness('continue_with_kwargs')
    if fin[0] == 2:
        NOTES.witness('kill_command')
    NOTES.info = dict(kinds=kinds, fin=fin[0], restore_entries=list(points))


def n_entries(kinds):
    """number of state entries before the final step returns: CREATED, one RUNNING per step, one WAITING per Wait"""
    return 1 + len(kinds) + 1 + sum(1 for k in kinds if k in (3, 4, 5))


def restore_points(r0, r1, r2, nb):
    """up to three strictly increasing restore positions in [0, nb); -1 = unused (canonical: unused ones last)"""
    pts = []
    prev = -1
    for r in (r0, r1, r2):
        if r == -1:
            prev = nb  # all later ones must be unused as well
            continue
        assume(prev < r < nb)
        prev = r
        for c in range(nb):
            if r == c:
                pts.append(c)
                break
    return pts


def chain2(c0: int, a0: int, s0: str, fin: int, r: int, msg: str, r0: int, r1: int, r2: int):
    assume(len(s0) <= 2 and len(msg) <= 2)
    k0 = pick(c0, NKINDS)
    f = pick(fin, NFIN)
    _run(1, [(k0, a0, s0)], (f, r, msg), restore_points(r0, r1, r2, n_entries([k0])))


def chain3(c0: int, c1: int, a0: int, s0: str, a1: int, s1: str, fin: int, r: int, msg: str, r0: int, r1: int,
           r2: int):
    assume(len(s0) <= 2 and len(s1) <= 2 and len(msg) <= 2)
    k0 = pick(c0, NKINDS)
    k1 = pick(c1, NKINDS)
    f = pick(fin, NFIN)
    _run(2, [(k0, a0, s0), (k1, a1, s1)], (f, r, msg), restore_points(r0, r1, r2, n_entries([k0, k1])))


def chain4(c0: int, c1: int, c2: int, a0: int, s0: str, a1: int, s1: str, a2: int, s2: str, fin: int, r: int,
           msg: str, r0: int, r1: int, r2: int):
    assume(len(s0) <= 2 and len(s1) <= 2 and len(s2) <= 2 and len(msg) <= 2)
    k0 = pick(c0, NKINDS)
    k1 = pick(c1, NKINDS)
    k2 = pick(c2, NKINDS)
    f = pick(fin, NFIN)
    _run(3, [(k0, a0, s0), (k1, a1, s1), (k2, a2, s2)], (f, r, msg), restore_points(r0, r1, r2, n_entries([k0, k1, k2])))


HARNESSES = {'chain2': chain2, 'chain3': chain3, 'chain4': chain4}


def shards(tier):
    out = []
    if tier == 'quick':
        for c0 in range(NKINDS):
            out.append(dict(name=f'chain2/c0={c0}', harness='chain2', fixed=dict(c0=c0, r2=-1), budget_s=100))
        for c0 in range(NKINDS):
            for c1 in range(NKINDS):
                out.append(dict(name=f'chain3/c0={c0},c1={c1}', harness='chain3', fixed=dict(c0=c0, c1=c1, r1=-1, r2=-1), budget_s=150))
    else:
        for c0 in range(NKINDS):
            for fin in range(NFIN):
                out.append(dict(name=f'chain2/c0={c0},fin={fin}', harness='chain2', fixed=dict(c0=c0, fin=fin), budget_s=600))
        for c0 in range(NKINDS):
            for c1 in range(NKINDS):
                out.append(dict(name=f'chain3/c0={c0},c1={c1}', harness='chain3', fixed=dict(c0=c0, c1=c1, r2=-1), budget_s=1200))
        # four-step chains for the command kinds with the richest argument flow (Continue with kwargs, Wait+resume(),
        # Wait with msg/data), one restore anywhere
        for c0 in (1, 4, 5):
            for c1 in (1, 4, 5):
                for c2 in (1, 4, 5):
                    out.append(dict(name=f'chain4/c0={c0},c1={c1},c2={c2}', harness='chain4',
                                    fixed=dict(c0=c0, c1=c1, c2=c2, r1=-1, r2=-1), budget_s=1200))
    return out


BOUNDS = {
    'quick': dict(chain_steps='<= 3 (run + 2 continuations)', command_kinds=NKINDS, final_kinds=NFIN,
                  restore_points='chains of <= 2 restores (2-step chain) or 1 restore (3-step chain) at any state entry (CREATED, each RUNNING, each WAITING), snapshot taken inside the ENTERED_STATE callback',
                  data='int unbounded (z3 Int); str length <= 2'),
    'thorough': dict(chain_steps='<= 3 for all 7 command kinds (<= 3 restores for 2-step, <= 2 for 3-step chains); 4-step chains over 3 kinds with one restore', command_kinds=NKINDS, final_kinds=NFIN,
                     restore_points='chains of restores at any state entry', data='int unbounded; str length <= 2'),
}
OUTSIDE = ['chains longer than the bound', 'more than two positional / one keyword argument per Continue',
           'pickle/YAML as restore medium (data must be concrete there; covered by C07)', 'async step functions (C05/C08)']
RULE = ('paths of the CrossHair search tree over (command kind per step, argument values, resume value, final command, '
        'restore positions); a path is non-trivial when the chain ran to termination and all oracles were evaluated; '
        'distinct = distinct path conditions')
SOLVER_ROLE = ('data: argument/result/message values are z3 Int/String variables compared by the solver after flowing '
               'through plumpy; selectors (command kind, restore positions) are case-split exhaustively by the solver-driven search')
EXPLANATION = 'bounded symbolic execution of Running/Waiting/Continue/Wait/Stop/Kill handling incl. save/load of the pending continuation'
ASSUMPTIONS = ['resume is delivered by the environment only when the loop is idle and the process is WAITING']
REQUIRED_WITNESSES = ['restored_between_return_and_next_step', 'restored_while_waiting', 'wait_resume', 'kill_command', 'continue_with_kwargs']
LEVEL_TEXT = ('bounded exhaustive symbolic exploration: for every chain of <= 3 (quick) / 4 (thorough) steps over 7 command '
              'kinds and 6 final commands, with argument/result/message values symbolic and every checkpoint/restore '
              'placement within the bound, the recorded continuation arguments and the outcome equal the command returned')
