"""C11 - only spec-conforming inputs create a process; defaults applied, inputs immutable."""
import copy

import vfw  # noqa: F401
import plumpy
from plumpy.utils import AttributesFrozendict
from vfw import portmodel as pm
from vfw.drive import fresh_loop, pick
from vfw.engine import NOTES, Violation, assume

PROPERTY_ID = 'C11'
LEVEL = 'exploration'
TYPES = [None, int, str]


def positive(value, port=None):
    if isinstance(value, int) and not value > 0:
        return 'must be positive'
    return None


def needs_a(values, port=None):
    if 'a' not in values:
        return 'needs a'
    return None


def make_process_class(define_fn):
    def define(cls, spec):
        super(klass, cls).define(spec)
        define_fn(spec)
    klass = type('C11P', (plumpy.Process,), {'define': classmethod(define), '__module__': __name__})
    return klass


def frozen_at(obj, path):
    for k in path:
        obj = obj[k]
    return obj


def check_construction(klass, model_space, inputs, declared_namespaces, label):
    """construct twice from the same spec; compare with the model"""
    # structural copies that keep the very same leaf objects: comparing a symbolic str with a *copy* of itself makes
    # CrossHair realise it, comparing it with itself does not
    snapshot = pm.plain(inputs)
    try:
        want = pm.accept(model_space, pm.plain(inputs))
        reject = None
    except pm.Reject as r:
        want, reject = None, r
    facts = dict(harness=label, model_rejects=None if reject is None else f'{reject.where}: {reject.why}')
    for attempt in (1, 2):
        loop = fresh_loop()
        try:
            proc = klass(inputs=inputs, loop=loop)
            raised = None
        except Exception as e:  # noqa: BLE001
            proc, raised = None, e
        try:
            if reject is not None:
                if raised is None:
                    raise Violation('invalid_inputs_accepted', attempt=attempt, **facts)
                if not isinstance(raised, (ValueError, TypeError)):
                    raise Violation('rejection_exception_type', got=type(raised).__name__, attempt=attempt, **facts)
                NOTES.witness('rejected')
            else:
                if raised is not None:
                    raise Violation('valid_inputs_rejected', attempt=attempt, err=type(raised).__name__, msg=str(type(raised)), **facts)
                got = pm.plain(proc.inputs)
                if got != want:
                    raise Violation('parsed_inputs_differ', attempt=attempt, got_keys=sorted(got), want_keys=sorted(want), **facts)
                # read-only at every declared namespace level
                for path in declared_namespaces:
                    try:
                        level = frozen_at(proc.inputs, path)
                    except KeyError:
                        continue
                    if not isinstance(level, AttributesFrozendict):
                        raise Violation('namespace_level_not_frozen', path='.'.join(path), type=type(level).__name__, attempt=attempt, **facts)
                    try:
                        level['__x'] = 1
                        raise Violation('namespace_level_writable', path='.'.join(path), attempt=attempt, **facts)
                    except TypeError:
                        pass
                if pm.plain(proc.raw_inputs) != snapshot:
                    raise Violation('raw_inputs_changed', attempt=attempt, **facts)
                NOTES.witness('accepted')
            if inputs != snapshot:
                raise Violation('caller_dictionary_changed', attempt=attempt, **facts)
        finally:
            if proc is not None:
                proc.kill()
                loop.run_all(50)
    NOTES.nontrivial = True


# ------------------------------------------------------------------------------------------------------------
def port(pr: bool, pt: int, pd: int, pv: bool, present: bool, kind: bool, v: int, s: str, dv: int, extra: bool):
    """one top-level port with every attribute combination + an optional undeclared key"""
    assume(len(s) <= 2)
    t = TYPES[pick(pt, 3)]
    d = pick(pd, 3)
    plain_default = 'd' if t is str else 5
    kw = dict(required=pr, valid_type=t)
    mport = dict(kind='port', required=pr, valid_type=t, default=pm.NODEF, validator=None)
    if pv:
        kw['validator'] = positive
        mport['validator'] = positive
    if d == 1:
        kw['default'] = plain_default
        mport['default'] = ('plain', plain_default)
    elif d == 2:
        kw['default'] = lambda: dv
        mport['default'] = ('callable', lambda: dv)
        NOTES.witness('callable_default')

    def define(spec):
        spec.input('p', **kw)

    space = dict(kind='ns', required=True, dynamic=False, valid_type=None, populate_defaults=True, default=pm.NODEF, validator=None,
                 ports={'p': mport})
    inputs = {}
    if present:
        inputs['p'] = v if kind else s
    if extra:
        inputs['zz'] = 1
    check_construction(make_process_class(define), space, inputs, [()], 'port')
    NOTES.info = dict(required=pr, valid_type=str(t), default=['none', 'plain', 'callable'][d], validator=pv, inputs=sorted(inputs))


def nested(nr: bool, nd: bool, nt: bool, npd: bool, ndf: bool, nv: bool, ar: bool, ad: bool, sr: bool, bd: bool,
           hn: bool, ha: bool, hs: bool, hb: bool, dyn: int, v: int, s: str, bv: int):
    """namespace ns {a, sub {b}} with every attribute combination; inputs with presence bits and an undeclared key
    (dyn: 0 none, 1 int in ns, 2 str in ns, 3 nested dict in ns, 4 undeclared key two levels deep in sub)"""
    assume(len(s) <= 2)
    dk = pick(dyn, 5)
    ns_kw = dict(required=nr, dynamic=nd, populate_defaults=npd)
    m_ns = dict(kind='ns', required=nr, dynamic=nd, valid_type=None, populate_defaults=npd, default=pm.NODEF, validator=None, ports={})
    if nt:
        ns_kw['valid_type'] = int   # forces dynamic=True
        m_ns['valid_type'] = int
        m_ns['dynamic'] = True
    if ndf:
        ns_kw['default'] = {'a': 7, 'sub': {}}
        m_ns['default'] = ('plain', {'a': 7, 'sub': {}})
        NOTES.witness('namespace_default')
    if nv:
        ns_kw['validator'] = needs_a
        m_ns['validator'] = needs_a
    a_kw = dict(required=ar, valid_type=int)
    m_a = dict(kind='port', required=ar, valid_type=int, default=pm.NODEF, validator=None)
    if ad:
        a_kw['default'] = 3
        m_a['default'] = ('plain', 3)
    b_kw = dict(required=True)
    m_b = dict(kind='port', required=True, valid_type=None, default=pm.NODEF, validator=None)
    if bd:
        b_kw['default'] = lambda: bv
        m_b['default'] = ('callable', lambda: bv)
    m_sub = dict(kind='ns', required=sr, dynamic=False, valid_type=None, populate_defaults=True, default=pm.NODEF, validator=None, ports={'b': m_b})
    m_ns['ports'] = {'a': m_a, 'sub': m_sub}

    def define(spec):
        spec.input_namespace('ns', **ns_kw)
        spec.input('ns.a', **a_kw)
        spec.input_namespace('ns.sub', required=sr)
        spec.input('ns.sub.b', **b_kw)

    space = dict(kind='ns', required=True, dynamic=False, valid_type=None, populate_defaults=True, default=pm.NODEF, validator=None, ports={'ns': m_ns})
    inputs = {}
    if hn:
        ns = {}
        if ha:
            ns['a'] = v
        if hs:
            sub = {}
            if hb:
                sub['b'] = s
            if dk == 4:
                sub['deep'] = {'k': v}
            ns['sub'] = sub
        if dk == 1:
            ns['dyn'] = v
        elif dk == 2:
            ns['dyn'] = s
        elif dk == 3:
            ns['dyn'] = {'k': v, 'l': {'m': s}}
        inputs['ns'] = ns
    else:
        assume(not ha and not hs and not hb and dk == 0)
    if not hs:
        assume(not hb and dk != 4)
    check_construction(make_process_class(define), space, inputs, [(), ('ns',), ('ns', 'sub')], 'nested')
    if dk:
        NOTES.witness('undeclared_key')
    if not npd:
        NOTES.witness('populate_defaults_false')
    NOTES.info = dict(ns=dict(required=nr, dynamic=nd, int_typed=nt, populate_defaults=npd, default=ndf, validator=nv), a=dict(required=ar, default=ad),
                      sub_required=sr, b_default=bd, inputs=inputs)


HARNESSES = {'port': port, 'nested': nested}


def shards(tier):
    out = []
    b = 400 if tier == 'quick' else 2400
    for pt in range(3):
        for pd in range(3):
            out.append(dict(name=f'port/type={pt},default={pd}', harness='port', fixed=dict(pt=pt, pd=pd), budget_s=b))
    for nr in (False, True):
        for nd in (False, True):
            for npd in (False, True):
                for sr in (False, True):
                    fixed = dict(nr=nr, nd=nd, npd=npd, sr=sr)
                    if tier == 'quick':
                        for ndf in (False, True):
                            out.append(dict(name=f'nested/{fixed},ndf={ndf},nv=False', harness='nested',
                                            fixed=dict(fixed, ndf=ndf, nv=False), budget_s=b))
                    else:
                        for ndf in (False, True):
                            for nv in (False, True):
                                for nt in (False, True):
                                    out.append(dict(name=f'nested/{fixed},ndf={ndf},nv={nv},nt={nt}', harness='nested',
                                                    fixed=dict(fixed, ndf=ndf, nv=nv, nt=nt), budget_s=b))
    return out


BOUNDS = {
    'quick': dict(port_template='one port: required x valid_type {None,int,str} x default {none, plain, callable(symbolic)} x validator {none, positive}; input absent / int / str (symbolic) + optional undeclared key',
                  nested_template='ns{a, sub{b}}: ns required/dynamic/populate_defaults/namespace-default/int-typed dynamic, a required/default, sub required, b callable default; inputs: presence bits for ns, a, sub, b; undeclared key in ns (int, str, nested dict) or two levels deep in sub',
                  not_in_quick='namespace validator (thorough)', constructions='each process constructed twice from the same spec'),
    'thorough': dict(port_template='as quick', nested_template='as quick plus namespace validator and dynamic valid_type=int', constructions='twice'),
}
OUTSIDE = ['specs with more than one sub-namespace level below ns.sub', 'non-mapping values supplied for a namespace', 'valid_type tuples', 'port names are fixed (dict keys are concrete)']
RULE = 'paths over (spec attribute combination, presence bits, value kinds, symbolic values); non-trivial when both constructions were compared with the reference model'
SOLVER_ROLE = 'data role: spec attributes are symbolic bools, values symbolic int/str; the solver explores every branch the real validation/pre-processing code takes on them and the model is evaluated on the same symbolic values'
EXPLANATION = 'differential check of Process construction against an independent acceptance/default model; immutability; caller dictionary untouched; second construction identical'
ASSUMPTIONS = ['plain defaults are chosen valid for the declared type (InputPort validates them when the spec is defined)']
REQUIRED_WITNESSES = ['accepted', 'rejected', 'callable_default', 'namespace_default', 'undeclared_key', 'populate_defaults_false']
LEVEL_TEXT = ('bounded exhaustive symbolic exploration of spec attribute combinations x input dictionaries for two templates: construction raises iff an independent model rejects, '
              'inputs equal the model output, every declared namespace level is read-only, raw_inputs and the caller dict are unchanged, and a second construction behaves identically')
