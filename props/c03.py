"""C03 - a failure in user code ends the process EXCEPTED, never half-transitioned (fault enumeration)."""
import asyncio

import vfw  # noqa: F401
import plumpy
from plumpy import process_states as ps
from vfw import programs, sched
from vfw.drive import pick
from vfw.engine import NOTES, Violation, assume
from vfw.sched import GAP, Req

PROPERTY_ID = 'C03'
LEVEL = 'fault_enumeration'
S = ps.ProcessState


class Injected(Exception):
    pass


F = dict(site=None, occ=None, after=None, count={}, fired=None, exc=None, run=None)

HOOKS = ['on_create', 'on_run', 'on_running', 'on_wait', 'on_waiting', 'on_exit_running', 'on_exit_waiting', 'on_finish',
         'on_finished', 'on_kill', 'on_killed', 'on_terminated', 'on_close', 'on_output_emitting', 'on_output_emitted',
         'on_entering', 'on_entered', 'on_exiting', 'on_pausing', 'on_paused', 'on_playing']
STEPS = ['run', 's1', 's2', 'callback']
LISTENER = ['l_running', 'l_waiting', 'l_paused', 'l_played', 'l_output', 'l_finished', 'l_killed']
SITES = HOOKS + STEPS + LISTENER
PAUSE_SITES = ('on_pausing', 'on_paused', 'on_playing')


def tick(site, phase, proc=None):
    """fault injection point: raises when (site, occurrence, before/after super) equals the symbolic fault"""
    if site != F['site']:
        return
    if phase != ('after' if F['after'] else 'before'):
        return
    c = F['count'].get(site, 0)
    F['count'][site] = c + 1
    if c == F['occ'] and F['fired'] is None:
        F['fired'] = dict(state=proc.state if proc is not None else None, paused=proc.paused if proc is not None else None,
                          terminated=proc.has_terminated() if proc is not None and proc.state is not None else False,
                          n_events=len(F['run'].events) if F['run'] is not None else 0)
        F['exc'] = Injected(site)
        raise F['exc']


def _hook(name):
    def method(self, *a, **k):
        tick(name, 'before', self)
        getattr(super(FP, self), name)(*a, **k)
        tick(name, 'after', self)
    method.__name__ = name
    return method


class FP(plumpy.Process):
    @classmethod
    def define(cls, spec):
        super().define(spec)
        spec.output('a', required=False)
        spec.output('b', required=False)

    async def run(self):
        programs._rec(self, 'run', 'enter', ())
        tick('run', 'before', self)
        await asyncio.sleep(0)
        self.out('a', 1)
        tick('run', 'after', self)
        return ps.Wait(self.s1, 'w')

    def s1(self, v=None):
        programs._rec(self, 's1', 'enter', (v,))
        tick('s1', 'before', self)
        self.call_soon(self.cb)
        tick('s1', 'after', self)
        return ps.Continue(self.s2, v)

    async def s2(self, v):
        programs._rec(self, 's2', 'enter', (v,))
        tick('s2', 'before', self)
        self.out('b', 2)
        await asyncio.sleep(0)
        tick('s2', 'after', self)
        return v

    def cb(self):
        programs._rec(self, 'cb', 'enter', ())
        tick('callback', 'before', self)
        tick('callback', 'after', self)


for _h in HOOKS:
    setattr(FP, _h, _hook(_h))


class FListener(sched.Listener):
    def on_process_running(self, process):
        super().on_process_running(process)
        tick('l_running', 'before', process); tick('l_running', 'after', process)

    def on_process_waiting(self, process):
        super().on_process_waiting(process)
        tick('l_waiting', 'before', process); tick('l_waiting', 'after', process)

    def on_process_paused(self, process):
        super().on_process_paused(process)
        tick('l_paused', 'before', process); tick('l_paused', 'after', process)

    def on_process_played(self, process):
        super().on_process_played(process)
        tick('l_played', 'before', process); tick('l_played', 'after', process)

    def on_output_emitted(self, process, output_port, value, dynamic):
        super().on_output_emitted(process, output_port, value, dynamic)
        tick('l_output', 'before', process); tick('l_output', 'after', process)

    def on_process_finished(self, process, outputs):
        super().on_process_finished(process, outputs)
        tick('l_finished', 'before', process); tick('l_finished', 'after', process)

    def on_process_killed(self, process, msg):
        super().on_process_killed(process, msg)
        tick('l_killed', 'before', process); tick('l_killed', 'after', process)


SCENARIOS = ['plain', 'pause (environment plays at idle)', 'kill', 'pause + explicit play', 'pause + second pause']


def make_reqs(scenario, pos, pos2):
    if scenario == 1:
        return [Req(GAP, pos, sched.PAUSE, 0, 'p')]
    if scenario == 2:
        return [Req(GAP, pos, sched.KILL, 0, 'k')]
    if scenario == 3:
        return [Req(GAP, pos, sched.PAUSE, 0, 'p'), Req(GAP, pos2, sched.PLAY, 0, '')]
    if scenario == 4:
        return [Req(GAP, pos, sched.PAUSE, 0, 'p'), Req(GAP, pos2, sched.PAUSE, 0, 'q')]
    return []


def execute(scenario, pos, pos2, site, occ, after):
    """returns (run, reqs, constructor_exc)"""
    F.update(site=site, occ=occ, after=after, count={}, fired=None, exc=None, run=None)
    reqs = make_reqs(scenario, pos, pos2)
    sched.Listener, saved = FListener, sched.Listener
    try:
        try:
            run = sched.Run(FP, reqs)
        except Injected as e:
            return None, reqs, e
        finally:
            sched.Listener = saved
    finally:
        sched.Listener = saved
    F['run'] = run
    run.go()
    return run, reqs, None


def summary(run):
    p = run.proc
    return dict(trace=[(t[0], t[1], t[2]) for t in programs.TRACE], state=p.state, outputs=dict(p.outputs),
                result=p.result() if p.state == S.FINISHED else None,
                notes=[n[0] for n in run.notes])


def _harness(scenario, pos, pos2, site, occ, after):
    # reference: same scenario without fault
    ref_run, _, _ = execute(scenario, pos, pos2, None, 0, False)
    try:
        ref = summary(ref_run)
    finally:
        ref_run.finish()
    run, reqs, ctor_exc = execute(scenario, pos, pos2, site, occ, after)
    fired = F['fired']
    exc = F['exc']
    facts = dict(site=site, after=bool(after), scenario=SCENARIOS[scenario],
                 fired_in_state=str(fired['state']) if fired else None,
                 fired_while_paused=bool(fired['paused']) if fired else None)
    if run is None:
        # construction failed: only legitimate for a fault in a construction-time hook, and it must be the injected one
        if ctor_exc is not exc or fired is None:
            raise Violation('constructor_raised_unexpectedly', **facts)
        NOTES.nontrivial = True
        NOTES.witness('constructor_fault_propagates')
        return
    try:
        p = run.proc
        got = summary(run)
        if run.loop.errors:
            raise Violation('exception_escaped_into_event_loop', first=run.loop.errors[0]['message'][:80],
                            exc=type(run.loop.errors[0]['exception']).__name__, **facts)
        if not run.task.done():
            raise Violation('stepping_task_not_released', state=str(p.state), **facts)
        if run.task.cancelled() or run.task.exception() is not None:
            raise Violation('stepping_task_failed', err=type(run.task.exception()).__name__ if not run.task.cancelled() else 'cancelled',
                            state=str(p.state), **facts)
        if fired is None:
            # the fault point was never reached: the run must be the fault-free run
            if got != ref:
                raise Violation('differs_without_fault', **facts)
            return
        NOTES.nontrivial = True
        if site in LISTENER:
            NOTES.witness('listener_fault')
            if got != ref:
                raise Violation('listener_fault_changed_process', got_state=str(got['state']), ref_state=str(ref['state']), **facts)
            return
        if site in PAUSE_SITES:
            NOTES.witness('pause_play_hook_fault')
            # reported to whoever requested the pause / play
            reported = False
            for r in reqs:
                if r.exc is exc:
                    reported = True
                ret = r.ret
                if ret is not None and not isinstance(ret, bool) and ret.done() and not ret.cancelled() and ret.exception() is exc:
                    reported = True
            for kind, *_ in run.idle_actions:
                pass
            if not reported and not run.policy_exc_is(exc):
                raise Violation('pause_hook_fault_not_reported', **facts)
            # ... and the process stayed controllable: a later pause request is honoured, not answered with the failed action
            failed = [r for r in reqs if r.exc is exc or (r.ret is not None and not isinstance(r.ret, bool) and r.ret.done()
                                                        and not r.ret.cancelled() and r.ret.exception() is exc)]
            for r in reqs:
                if r.act == sched.PAUSE and r.applied and failed and r is not failed[0] and not r.pre['terminated'] \
                        and [e[1] for e in run.events].index(r) >= fired['n_events']:
                    ret = r.ret
                    ok = ret is True or (ret is not None and not isinstance(ret, bool) and ret.done() and not ret.cancelled()
                                         and ret.exception() is None and ret.result() is True)
                    if ret is failed[0].ret and not isinstance(ret, bool):
                        ok = False
                    if not ok and r.exc is None:
                        raise Violation('later_pause_not_honoured', **facts)
                    NOTES.witness('pause_after_failed_pause_hook')
            # ... and it stayed live: with the environment playing it finishes as usual
            if got['state'] != ref['state'] or got['trace'] != ref['trace'] or got['outputs'] != ref['outputs'] or got['result'] != ref['result']:
                raise Violation('pause_hook_fault_disturbed_process', got_state=str(got['state']), ref_state=str(ref['state']),
                                paused=p.paused, **facts)
            return
        if fired['terminated'] and site == 'callback':
            # a late callback on a terminated process changes nothing
            if got['state'] != ref['state']:
                raise Violation('late_callback_changed_state', **facts)
            return
        # everything else: EXCEPTED with exactly that exception, closed, future raising it
        NOTES.witness('hook_or_step_fault')
        if fired['state'] in (S.FINISHED, S.KILLED, S.EXCEPTED) or site in ('on_terminated', 'on_close'):
            NOTES.witness('fault_after_terminal_state_entered')
        if p.state != S.EXCEPTED:
            raise Violation('not_excepted', state=str(p.state), **facts)
        if p.exception() is not exc:
            raise Violation('wrong_exception', got=type(p.exception()).__name__, **facts)
        fut = p.future()
        if not fut.done() or fut.cancelled() or fut.exception() is not exc:
            raise Violation('future_does_not_raise_it', done=fut.done(), **facts)
        try:
            p.add_cleanup(lambda: None)
            raise Violation('not_closed', **facts)
        except plumpy.ClosedError:
            pass
        n_exc = len([n for n in run.notes if n[0] == 'excepted'])
        if n_exc != 1:
            raise Violation('excepted_notification_count', n=n_exc, **facts)
    finally:
        run.finish()


def _policy_exc_is(self, exc):
    return any(e is exc for e in getattr(self, 'policy_excs', []))


sched.Run.policy_exc_is = _policy_exc_is
_orig_policy_act = sched.Run.policy_act


def _policy_act(self):
    try:
        return _orig_policy_act(self)
    except Injected as e:  # the environment's play() may be the call that reports a failing play hook
        if not hasattr(self, 'policy_excs'):
            self.policy_excs = []
        self.policy_excs.append(e)
        return True


def fault(scenario: int, pos: int, pos2: int, site: int, occ: int, after: bool):
    sc = pick(scenario, len(SCENARIOS))
    if sc == 0:
        assume(pos == 0 and pos2 == 0)
    elif sc in (3, 4):
        assume(0 <= pos <= pos2 <= NPOS)
    else:
        assume(0 <= pos <= NPOS and pos2 == 0)
    assume(0 <= occ <= MAXOCC)
    s = SITES[pick(site, len(SITES))]
    sched.Run.policy_act = _policy_act
    try:
        _harness(sc, pos, pos2, s, occ, after)
    finally:
        sched.Run.policy_act = _orig_policy_act


NPOS = 9
MAXOCC = 2
HARNESSES = {'fault': fault}


def shards(tier):
    out = []
    for site in range(len(SITES)):
        for sc in range(len(SCENARIOS)):
            if tier == 'quick' and (sc == 3 or (sc == 4 and SITES[site] not in PAUSE_SITES)):
                continue
            out.append(dict(name=f'fault/site={SITES[site]},scenario={sc}', harness='fault', fixed=dict(site=site, scenario=sc),
                            budget_s=300 if tier == 'quick' else 1500))
    return out


BOUNDS = {
    'quick': dict(sites=SITES, occurrence=f'0..{MAXOCC}', phase='before / after the hook\'s super() call (or at the start / end of a step)',
                  scenarios=SCENARIOS[:3] + ['pause + second pause (pause/play hook sites only)'], positions=f'pause / kill request at every gap 0..{NPOS}', program='FP: async run (output) -> Wait -> s1 (schedules a call_soon callback) -> Continue -> async s2 (output) -> result'),
    'thorough': dict(sites=SITES, occurrence=f'0..{MAXOCC}', phase='before / after', scenarios=SCENARIOS, positions=f'0..{NPOS} for pause/kill and for the explicit play', program='FP'),
}
OUTSIDE = ['two faults in one run (hence faults inside on_except/on_excepted)', 'faults in cleanups registered with add_cleanup (swallowed by on_close by design)',
           'programs other than FP', 'faults in user code during construction other than on_create/on_entering/on_entered']
RULE = 'paths over (site, occurrence, before/after, scenario, request position); non-trivial when the fault actually fired; every run is compared with the fault-free run of the same scenario in the same path'
SOLVER_ROLE = 'selector role: exhaustive solver-driven case split over fault site/occurrence/phase x scenario x request position, with exhaustion verdict'
EXPLANATION = 'complete single-fault enumeration over every overridable hook, step, callback and listener method'
ASSUMPTIONS = ['the environment plays a paused process at idle and resumes the waiting process with a default value']
REQUIRED_WITNESSES = ['pause_after_failed_pause_hook', 'constructor_fault_propagates', 'listener_fault', 'pause_play_hook_fault', 'hook_or_step_fault', 'fault_after_terminal_state_entered']
LEVEL_TEXT = ('single-fault enumeration, solver-driven: for every hook/step/callback/listener site x occurrence x before/after x scenario x request position the outcome '
              'must be as the statement says (EXCEPTED with exactly the injected exception, closed, future raising it, stepping returned, nothing in the loop exception handler; listener faults invisible; pause/play hook faults reported to the requester and harmless; constructor faults propagate)')
