"""C12 - outputs are stored only if valid; success requires spec-conforming outputs."""
import vfw  # noqa: F401
import plumpy
from plumpy import process_states as ps
from vfw import portmodel as pm
from vfw.drive import cleanup, fresh_loop, pick
from vfw.engine import NOTES, Violation, assume

PROPERTY_ID = 'C12'
LEVEL = 'exploration'
S = ps.ProcessState
TYPES = [None, int, str]
PATHS = ['o', 'n.p', 'n.dyn', 'n.d.k', 'zz', 'n.d', 'm.x.y']
PLAN = {}


def positive(value, port=None):
    if isinstance(value, int) and not value > 0:
        return 'must be positive'
    return None


class Emitter(plumpy.ProcessListener):
    def __init__(self):
        super().__init__()
        self.seen = []

    def on_output_emitted(self, process, output_port, value, dynamic):
        self.seen.append((output_port, value, dynamic))


def make_class(define_fn):
    def define(cls, spec):
        super(klass, cls).define(spec)
        define_fn(spec)

    def run(self):
        PLAN['log'] = []
        for path, value in PLAN['emissions']:
            before = pm.plain(self.outputs)
            try:
                self.out(path, value)
                PLAN['log'].append(('ok', None, before, pm.plain(self.outputs)))
            except Exception as e:  # noqa: BLE001
                PLAN['log'].append(('raised', e, before, pm.plain(self.outputs)))
        if PLAN['unsuccessful']:
            return plumpy.UnsuccessfulResult(PLAN['result'])
        return PLAN['result']

    klass = type('C12P', (plumpy.Process,), {'define': classmethod(define), 'run': run, '__module__': __name__})
    return klass


def model_out(space, outputs, path, value):
    """returns ('ok', dynamic_flag) and updates outputs / the model spec (dynamically created namespaces), or ('reject', why)"""
    parts = path.split('.')
    name = parts.pop()
    ns = space
    created = []
    for comp in parts:
        if comp in ns['ports']:
            nxt = ns['ports'][comp]
            if nxt['kind'] != 'ns':
                return ('reject', 'path goes through a port')
        else:
            if not ns['dynamic']:
                return ('reject', 'namespace does not exist and parent is not dynamic')
            nxt = dict(kind='ns', required=ns['required'], dynamic=ns['dynamic'], valid_type=ns['valid_type'], populate_defaults=True,
                       default=pm.NODEF, validator=ns.get('validator'), ports={})
            created.append((ns, comp, nxt))
        ns = nxt
    try:
        if name in ns['ports']:
            port = ns['ports'][name]
            if port['kind'] == 'ns':
                pm.validate_space(port, value if isinstance(value, dict) else {'__not_a_mapping__': value}, name) if isinstance(value, dict) else (_ for _ in ()).throw(pm.Reject(name, 'namespace needs a mapping'))
            else:
                pm.validate_port(port, value, name)
            dynamic = False
        else:
            pm.validate_dynamic(ns, {name: value}, name)
            dynamic = True
    except pm.Reject as r:
        return ('reject', r.why)
    for parent, comp, nxt in created:
        parent['ports'][comp] = nxt
    o = outputs
    for comp in parts:
        o = o.setdefault(comp, {})
    o[name] = value
    return ('ok', dynamic)


def _harness(ot: int, oreq: bool, ov: bool, nd: bool, nt: bool, nr: bool, preq: bool, ems, unsuccessful, result):
    used = [e[0] for e in ems]
    assume(not ('n.d' in used and 'n.d.k' in used))  # the same path used both as a leaf and as a namespace: outside the claim
    t = TYPES[ot]
    o_kw = dict(required=oreq, valid_type=t)
    m_o = dict(kind='port', required=oreq, valid_type=t, validator=None)
    if ov:
        o_kw['validator'] = positive
        m_o['validator'] = positive
    n_kw = dict(required=nr, dynamic=nd)
    m_n = dict(kind='ns', required=nr, dynamic=nd, valid_type=None, populate_defaults=True, default=pm.NODEF, validator=None, ports={})
    if nt:
        n_kw['valid_type'] = int
        m_n['valid_type'] = int
        m_n['dynamic'] = True
    m_p = dict(kind='port', required=preq, valid_type=int, validator=None)
    m_n['ports'] = {'p': m_p}
    space = dict(kind='ns', required=True, dynamic=False, valid_type=None, populate_defaults=True, default=pm.NODEF, validator=None,
                 ports={'o': m_o, 'n': m_n})

    def define(spec):
        spec.output('o', **o_kw)
        spec.output_namespace('n', **n_kw)
        spec.output('n.p', valid_type=int, required=preq)

    klass = make_class(define)
    PLAN.clear()
    PLAN.update(emissions=ems, unsuccessful=unsuccessful, result=result)
    loop = fresh_loop()
    proc = klass(loop=loop)
    lis = Emitter()
    proc.add_process_listener(lis)
    try:
        loop.create_task(proc.step_until_terminated())
        loop.run_all(500)
        if proc.state != S.FINISHED:
            raise Violation('not_finished', state=str(proc.state), err=repr(proc.exception())[:120])
        outputs = {}
        expected_seen = []
        facts = dict(paths=[e[0] for e in ems])
        stale_ns = False
        for (path, value), (kind, exc, before, after) in zip(ems, PLAN['log']):
            verdict = model_out(space, outputs, path, value)
            if verdict[0] == 'ok':
                if kind != 'ok':
                    # did an earlier REJECTED emission leave a dynamically created namespace behind in the real spec?
                    raise Violation('valid_output_rejected', path=path, err=type(exc).__name__, **facts)
                expected_seen.append((path, value, verdict[1]))
                if after != outputs:
                    raise Violation('stored_outputs_differ', path=path, **facts)
                NOTES.witness('emission_accepted')
            else:
                if kind == 'ok':
                    raise Violation('invalid_output_stored', path=path, why=verdict[1], **facts)
                if verdict[1] in ('wrong type', 'dynamic value of wrong type') or verdict[1].startswith('validator') \
                        or verdict[1].startswith('undeclared'):
                    if not isinstance(exc, ValueError):
                        raise Violation('rejected_value_not_valueerror', path=path, got=type(exc).__name__, why=verdict[1], **facts)
                if after != before:
                    raise Violation('outputs_changed_by_rejected_emission', path=path, **facts)
                NOTES.witness('emission_rejected')
        if pm.plain(proc.outputs) != outputs:
            raise Violation('final_outputs_differ', **facts)
        if [(a, b, c) for a, b, c in lis.seen] != expected_seen:
            raise Violation('listener_notifications_differ', got=[(a, c) for a, _b, c in lis.seen], want=[(a, c) for a, _b, c in expected_seen], **facts)
        if pm.plain(proc.future().result()) != outputs:
            raise Violation('future_result_differs', **facts)
        if proc.result() != result:
            raise Violation('result_not_preserved', **facts)
        try:
            pm.validate_space(space, outputs)
            conforming = True
        except pm.Reject:
            conforming = False
        want_success = (not unsuccessful) and conforming
        if proc.successful() != want_success or proc.is_successful != want_success:
            raise Violation('success_flag', got=proc.successful(), want=want_success, conforming=conforming, **facts)
        NOTES.nontrivial = True
        if not conforming and not unsuccessful:
            NOTES.witness('normal_return_nonconforming_outputs')
        if any(p in ('n.d.k', 'm.x.y') for p, _ in ems):
            NOTES.witness('nested_dynamic_path')
        NOTES.info = dict(spec=dict(o_type=str(t), o_required=oreq, o_validator=ov, n_dynamic=nd, n_int=nt, n_required=nr, p_required=preq),
                          emissions=[e[0] for e in ems], successful=want_success)
    finally:
        cleanup(loop, [proc])


def emit1(ot: int, oreq: bool, ov: bool, nd: bool, nt: bool, nr: bool, preq: bool, p0: int, k0: bool, v: int, s: str,
          unsuccessful: bool, result: int):
    assume(len(s) <= 2)
    ems = [(PATHS[pick(p0, len(PATHS))], v if k0 else s)]
    _harness(pick(ot, 3), oreq, ov, nd, nt, nr, preq, ems, unsuccessful, result)


def emit2(ot: int, oreq: bool, ov: bool, nd: bool, nt: bool, nr: bool, preq: bool, p0: int, k0: bool, p1: int, k1: bool,
          v: int, s: str, w: int, unsuccessful: bool, result: int):
    assume(len(s) <= 2)
    ems = [(PATHS[pick(p0, len(PATHS))], v if k0 else s), (PATHS[pick(p1, len(PATHS))], w if k1 else s)]
    _harness(pick(ot, 3), oreq, ov, nd, nt, nr, preq, ems, unsuccessful, result)


def emit3(ot: int, nd: bool, nt: bool, p0: int, k0: bool, p1: int, k1: bool, p2: int, k2: bool, v: int, s: str, w: int):
    assume(len(s) <= 2)
    ems = [(PATHS[pick(p0, len(PATHS))], v if k0 else s), (PATHS[pick(p1, len(PATHS))], w if k1 else s),
           (PATHS[pick(p2, len(PATHS))], v if k2 else s)]
    _harness(pick(ot, 3), False, False, nd, nt, False, False, ems, False, 0)


HARNESSES = {'emit1': emit1, 'emit2': emit2, 'emit3': emit3}


def shards(tier):
    out = []
    b = 400 if tier == 'quick' else 2400
    for ot in range(3):
        for p0 in range(len(PATHS)):
            out.append(dict(name=f'emit1/ot={ot},p0={p0}', harness='emit1', fixed=dict(ot=ot, p0=p0), budget_s=b))
    for p0 in range(len(PATHS)):
        for p1 in range(len(PATHS)):
            if tier == 'quick':
                out.append(dict(name=f'emit2/p0={p0},p1={p1}', harness='emit2',
                                fixed=dict(p0=p0, p1=p1, oreq=True, ov=False, nr=False, unsuccessful=False), budget_s=b))
            else:
                for ot in range(3):
                    out.append(dict(name=f'emit2/ot={ot},p0={p0},p1={p1}', harness='emit2', fixed=dict(ot=ot, p0=p0, p1=p1), budget_s=b))
                out.append(dict(name=f'emit3/p0={p0},p1={p1}', harness='emit3', fixed=dict(p0=p0, p1=p1), budget_s=b))
    return out


BOUNDS = {
    'quick': dict(spec='port o (valid_type {None,int,str} x required x validator), namespace n (dynamic x int-typed x required) with port n.p (int, required or not)',
                  emissions='1 emission with every spec combination; 2 emissions with a partly fixed spec (o required without validator, n optional; o type, n dynamic/int-typed, n.p required symbolic)', paths=PATHS,
                  values='symbolic int or symbolic str (len <= 2) per emission', ending='plain result or UnsuccessfulResult (symbolic code)'),
    'thorough': dict(spec='as quick, all combinations for 2 emissions', emissions='<= 3', paths=PATHS, values='as quick', ending='as quick'),
}
OUTSIDE = ['emission sequences that use one path both as a value (n.d) and as a namespace (n.d.k)', 'more than 3 emissions', 'output port names other than the fixed family', 'namespace validators on outputs', 'mapping values emitted onto a namespace port']
RULE = 'paths over (output spec attributes, emission paths, value kinds/values, ending); non-trivial when the process finished and every emission and the success flag were compared with the model'
SOLVER_ROLE = 'data role: spec attributes symbolic bools, emitted values symbolic int/str (the positive-validator and type checks are decided by the solver for all values)'
EXPLANATION = 'out() accept/reject + stored outputs + listener notifications + future result + success flag vs an independent model of the output spec'
ASSUMPTIONS = ['a namespace created dynamically by an ACCEPTED nested emission is a namespace from then on (model tracks it); a rejected emission must change nothing']
REQUIRED_WITNESSES = ['emission_accepted', 'emission_rejected', 'normal_return_nonconforming_outputs', 'nested_dynamic_path']
LEVEL_TEXT = ('bounded exhaustive symbolic exploration of output specs x emission sequences: out() stores iff the model accepts (ValueError for rejected values, outputs unchanged), '
              'listeners/future report exactly the stored values, FINISHED with the result preserved and successful iff normal return and outputs conform')
