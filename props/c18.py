"""C18 - Process.current() is the process whose code is running."""
import asyncio

import vfw  # noqa: F401
import plumpy
from plumpy import process_states as ps
from vfw.drive import cleanup, fresh_loop, pick
from vfw.engine import NOTES, Violation, assume

PROPERTY_ID = 'C18'
LEVEL = 'exploration'
S = ps.ProcessState
SAMPLES = []
PLAN = {}
HOOKS = ['on_create', 'on_run', 'on_running', 'on_wait', 'on_waiting', 'on_exit_running', 'on_exit_waiting', 'on_finish', 'on_finished',
         'on_kill', 'on_killed', 'on_terminated', 'on_close', 'on_output_emitting', 'on_output_emitted', 'on_pausing', 'on_paused', 'on_playing']


def sample(expected, where):
    SAMPLES.append((where, expected, plumpy.Process.current()))


class Boom(Exception):
    pass


def _hook(name):
    def method(self, *a, **k):
        sample(self, f'hook:{name}')
        f = PLAN.get('_fault')
        if f is None or f['hook'] != name or f['fired'] or self.inputs.name != f['who']:
            return getattr(super(CP, self), name)(*a, **k)
        f['fired'] = True    # the hook fails once, before or after the base implementation ran
        if not f['after']:
            raise Boom(name)
        getattr(super(CP, self), name)(*a, **k)
        raise Boom(name)
    method.__name__ = name
    return method


class CP(plumpy.Process):
    """process whose steps, callbacks and hooks all sample Process.current()"""

    @classmethod
    def define(cls, spec):
        super().define(spec)
        spec.input('name', valid_type=str)
        spec.outputs.dynamic = True

    async def run(self):
        me = self.inputs.name
        plan = PLAN[me]
        sample(self, f'{me}:run:start')
        for k in range(plan['awaits0']):
            await asyncio.sleep(0)
            sample(self, f'{me}:run:after-await{k}')
        if plan.get('launch') is not None:
            child = self.launch(CP, inputs={'name': plan['launch']})
            PLAN['_procs'].append(child)
            sample(self, f'{me}:run:after-launch')
            for k in range(plan.get('awaits_after', 0)):
                await asyncio.sleep(0)      # the child's step starts and suspends while this step is still open
                sample(self, f'{me}:run:after-launch-await{k}')
        if plan.get('callback'):
            self.call_soon(self.cb)
        if plan.get('poke') is not None:
            # a child (whose context has its launcher below it on the process stack) makes code of that launcher run
            parent = PLAN['_byname'][plan['poke']]
            if not parent.has_terminated():
                parent.call_soon(parent.cb)
                PLAN['_poked'] = True
        if plan.get('control') and not plan.get('control_in_cb'):
            do_control(self, f'{me}:run')
        if plan.get('nested') is not None:
            inner = CP(inputs={'name': plan['nested']}, loop=self.loop)
            PLAN['_procs'].append(inner)
            inner.execute()
            sample(self, f'{me}:run:after-nested-execute')
        self.out('o', 1)
        sample(self, f'{me}:run:end')
        if plan.get('wait'):
            return ps.Wait(self.s1)
        return ps.Continue(self.s1, 0)

    async def s1(self, v=None):
        me = self.inputs.name
        sample(self, f'{me}:s1:start')
        for k in range(PLAN[me]['awaits1']):
            await asyncio.sleep(0)
            sample(self, f'{me}:s1:after-await{k}')
        return v

    def cb(self):
        sample(self, f'{self.inputs.name}:callback')
        if PLAN[self.inputs.name].get('control_in_cb'):
            do_control(self, f'{self.inputs.name}:callback')
            PLAN['_ctl_done'] = True


def do_control(expected, where):
    """control requests on the target T whose hook may raise out of the request: afterwards the previous value is back"""
    target = PLAN['_byname']['T']
    for req in PLAN['_requests']:
        try:
            if req == 'pause':
                target.pause('m')
            elif req == 'play':
                target.play()
            else:
                target.kill('k')
        except Exception as e:  # noqa: BLE001
            if isinstance(e, Boom):
                PLAN['_escaped'] = True
        sample(expected, f'{where}:after-{req}-request')


for _h in HOOKS:
    setattr(CP, _h, _hook(_h))


def evaluate(facts):
    bad = [(w, getattr(e, 'pid', None), getattr(g, 'pid', None) if g is not None else None) for (w, e, g) in SAMPLES if g is not e]
    if bad:
        kinds = sorted({w.split(':')[0] if w.startswith('hook') else w.split(':', 1)[1] for (w, _e, _g) in bad})
        only_hooks = all(w.startswith('hook:') for (w, _e, _g) in bad)
        raise Violation('current_is_not_the_running_process', first=bad[0][0], n_bad=len(bad), only_in_hooks=only_hooks,
                        where=kinds[:12], **facts)


def concurrent(n3: bool, a0: int, a1: int, b0: int, b1: int, c0: int, launcher: int, cb: bool, wait: bool, pause_at: int, al: int,
               poke: bool = False):
    """2-3 processes stepping concurrently on one loop; symbolic number of await points per step; one of them launches a
    child from its step; optional call_soon callback, wait/resume and pause/play"""
    a0, a1, b0, b1, c0, al = pick(a0, 3), pick(a1, 3), pick(b0, 3), pick(b1, 3), pick(c0, 3), pick(al, 3)
    la = pick(launcher, 3)
    if la == 0:
        assume(al == 0 and not poke)
    assume(-1 <= pause_at <= PAUSE_MAX[0])
    del SAMPLES[:]
    PLAN.clear()
    PLAN['_procs'] = []
    PLAN['A'] = dict(awaits0=a0, awaits1=a1, launch='K' if la == 1 else None, callback=cb, wait=wait, awaits_after=al)
    PLAN['B'] = dict(awaits0=b0, awaits1=b1, launch='K' if la == 2 else None, callback=False, wait=False, awaits_after=al)
    PLAN['C'] = dict(awaits0=c0, awaits1=0)
    PLAN['K'] = dict(awaits0=1, awaits1=1, poke=(['A', 'B'][la - 1] if (poke and la) else None))
    loop = fresh_loop()
    names = ['A', 'B'] + (['C'] if n3 else [])
    procs = [CP(inputs={'name': nm}, loop=loop) for nm in names]
    PLAN['_procs'].extend(procs)
    PLAN['_byname'] = dict(zip(names, procs))
    probe_log = []

    async def probe():
        for _ in range(12):
            probe_log.append(plumpy.Process.current())
            await asyncio.sleep(0)

    try:
        for p in procs:
            loop.create_task(p.step_until_terminated())
        loop.create_task(probe())
        tick = 0
        for _ in range(300):
            if tick == pause_at:
                procs[0].pause('p')
            if loop.pending():
                loop.step()
                tick += 1
                continue
            acted = False
            for p in PLAN['_procs']:
                if p.paused and not p.has_terminated():
                    p.play()
                    acted = True
                elif p.state == S.WAITING:
                    p.resume(5)
                    acted = True
            if not acted:
                break
        facts = dict(scenario='concurrent', processes=len(PLAN['_procs']), launcher=['none', 'A', 'B'][la])
        if not all(p.has_terminated() for p in PLAN['_procs']):
            raise Violation('not_all_terminated', states=[str(p.state) for p in PLAN['_procs']], **facts)
        if any(x is not None for x in probe_log):
            raise Violation('leaked_outside_process_code', **facts)
        evaluate(facts)
        if plumpy.Process.current() is not None:
            raise Violation('leaked_to_top_level', **facts)
        NOTES.nontrivial = True
        if la:
            NOTES.witness('child_launched_from_step')
        if la and al:
            NOTES.witness('parent_and_child_steps_open_at_once')
        if cb:
            NOTES.witness('scheduled_callback')
        if PLAN.get('_poked'):
            NOTES.witness('child_schedules_callback_of_its_launcher')
        if any(w.startswith('hook:on_paused') for (w, _e, _g) in SAMPLES):
            NOTES.witness('pause_hooks')
        if a0 and b0:
            NOTES.witness('interleaved_async_steps')
        NOTES.info = dict(facts, samples=len(SAMPLES))
    finally:
        cleanup(loop, PLAN['_procs'])


def nested(depth: int, a0: int, b0: int):
    """re-entrant execution: A's step execute()s B, whose step may execute() C (stock asyncio loop made re-entrant by
    plumpy's own event loop policy)"""
    d = pick(depth, 2) + 1
    assume(0 <= a0 <= 1 and 0 <= b0 <= 1)
    del SAMPLES[:]
    PLAN.clear()
    PLAN['_procs'] = []
    PLAN['A'] = dict(awaits0=a0, awaits1=0, nested='B')
    PLAN['B'] = dict(awaits0=b0, awaits1=0, nested='C' if d == 2 else None)
    PLAN['C'] = dict(awaits0=1, awaits1=1)
    plumpy.set_event_loop_policy()
    try:
        loop = asyncio.get_event_loop()
        a = CP(inputs={'name': 'A'}, loop=loop)
        a.execute()
        facts = dict(scenario='nested execute', depth=d)
        if a.state != S.FINISHED or not all(p.state == S.FINISHED for p in PLAN['_procs']):
            raise Violation('not_all_finished', **facts)
        evaluate(facts)
        if plumpy.Process.current() is not None:
            raise Violation('leaked_to_top_level', **facts)
        NOTES.nontrivial = True
        NOTES.witness('nested_execute')
        NOTES.info = dict(facts, samples=len(SAMPLES))
    finally:
        plumpy.reset_event_loop_policy()


FAULT_HOOKS = ['on_pausing', 'on_paused', 'on_playing', 'on_kill', 'on_killed', 'on_terminated', 'on_exit_running', 'on_exit_waiting', 'on_close']
SEQS = [['pause'], ['pause', 'play'], ['kill'], ['pause', 'kill'], ['pause', 'play', 'pause']]


def faulty(seq: int, hook: int, after: bool, frm: int, tsteps: int, a0: int):
    """a hook of T raises while a control request on T is made from plain code, from the step of another process or from
    a scheduled callback of another process: when the request has returned (or raised) the previous value is observed"""
    sq, hk, fr, ts, a0 = pick(seq, len(SEQS)), pick(hook, len(FAULT_HOOKS)), pick(frm, 3), pick(tsteps, 4), pick(a0, 2)
    del SAMPLES[:]
    PLAN.clear()
    PLAN['_procs'] = []
    PLAN['_requests'] = SEQS[sq]
    PLAN['_fault'] = dict(hook=FAULT_HOOKS[hk], after=bool(after), fired=False, who='T')
    PLAN['T'] = dict(awaits0=1, awaits1=1, wait=True)
    PLAN['A'] = dict(awaits0=a0, awaits1=0, control=(fr != 0), control_in_cb=(fr == 2), callback=(fr == 2))
    loop = fresh_loop()
    t = CP(inputs={'name': 'T'}, loop=loop)
    procs = [t]
    PLAN['_procs'].append(t)
    PLAN['_byname'] = {'T': t}
    try:
        if ts:      # T is being stepped and has made `ts` loop callbacks of progress; otherwise it was never started
            loop.create_task(t.step_until_terminated())
            for _ in range(ts):
                if loop.pending():
                    loop.step()
        if fr == 0:
            do_control(None, 'plain')
        else:
            a = CP(inputs={'name': 'A'}, loop=loop)
            procs.append(a)
            PLAN['_procs'].append(a)
            loop.create_task(a.step_until_terminated())
        for _ in range(200):
            if loop.pending():
                loop.step()
            elif t.paused and not t.has_terminated():
                try:
                    t.play()
                except Exception:  # noqa: BLE001
                    pass
                sample(None, 'driver:after-play-request')
            elif t.state == S.WAITING:
                t.resume(5)
            else:
                break
        facts = dict(scenario='failing hook under a control request', requests=SEQS[sq], hook=FAULT_HOOKS[hk], after_super=bool(after),
                     requested_from=['plain code', 'step of another process', 'callback of another process'][fr])
        if fr and not procs[1].has_terminated():
            raise Violation('controller_not_terminated', state=str(procs[1].state), **facts)
        evaluate(facts)
        if plumpy.Process.current() is not None:
            raise Violation('leaked_to_top_level', **facts)
        NOTES.nontrivial = True
        if PLAN['_fault']['fired']:
            NOTES.witness('hook_failed_under_request')
        if PLAN.get('_escaped'):
            NOTES.witness('hook_error_escaped_the_request')
        NOTES.info = facts
    finally:
        cleanup(loop, procs)


PAUSE_MAX = [6]
HARNESSES = {'concurrent': concurrent, 'nested': nested, 'faulty': faulty}


def shards(tier):
    out = [dict(name='nested', harness='nested', fixed={}, budget_s=300)]
    for fr in range(3):
        for sq in range(len(SEQS)):
            out.append(dict(name=f'faulty/from={fr}/seq={sq}', harness='faulty', fixed=dict(frm=fr, seq=sq), budget_s=300 if tier == 'quick' else 1200))
    for launcher in range(3):
        for n3 in (False, True):
            for wait in (False, True):
                fixed = dict(launcher=launcher, n3=n3, wait=wait)
                if tier == 'quick':
                    fixed.update(c0=1, b1=0, a1=0)
                    if n3 and launcher == 0:
                        continue
                else:
                    fixed.update(c0=1)
                for cb in (False, True):
                    for poke in ((False, True) if launcher else (False,)):
                        fx = dict(fixed, cb=cb, poke=poke)
                        out.append(dict(name=f'concurrent/{fx}', harness='concurrent', fixed=fx, budget_s=400 if tier == 'quick' else 2400))
    return out


BOUNDS = {
    'quick': dict(processes='2 or 3 concurrently stepping processes + optionally a child launched from a step of A or B', await_points='0..2 per step (symbolic; two of them fixed in the quick tier)',
                  extras='call_soon callback, the child scheduling a callback of its launcher from its own step, wait/resume, pause of A at gap -1..6 with play at idle', nested='A executes B (executes C) re-entrantly, 0..1 await points before the nested call',
                  sampled='every step start/end, after every await, after launch / nested execute, every overridable hook, callbacks, and a non-process probe task between callbacks'),
    'thorough': dict(processes='as quick', await_points='0..2 for every step of A and B (symbolic), C fixed to 1', extras='as quick', nested='as quick', sampled='as quick'),
}
OUTSIDE = ['real threads', 'more than 4 processes', 'nested execution on the StepLoop stub (the stock loop patched by nest_asyncio is used for that sub-case)']
RULE = 'paths over (number of await points per step, who launches a child, callback, wait, pause position, nesting depth); non-trivial when all processes terminated and every sample was compared'
SOLVER_ROLE = 'selector role: the symbolic await counts / positions determine the interleaving; the solver enumerates them exhaustively'
EXPLANATION = 'Process.current() sampled inside generated steps, hooks and callbacks must be the process owning the code; a probe task outside any process must see None'
ASSUMPTIONS = ['FIFO StepLoop for the concurrent scenario; stock asyncio loop + plumpy.set_event_loop_policy() for re-entrant execute()']
REQUIRED_WITNESSES = ['child_schedules_callback_of_its_launcher', 'parent_and_child_steps_open_at_once', 'child_launched_from_step', 'scheduled_callback', 'pause_hooks', 'interleaved_async_steps', 'nested_execute', 'hook_failed_under_request', 'hook_error_escaped_the_request']
LEVEL_TEXT = 'bounded exhaustive symbolic exploration of interleavings of concurrently stepping processes, children and re-entrant executions with Process.current() sampled at every await point, hook and callback'
