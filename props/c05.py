"""C05 - pause/play is transparent: nothing runs while paused, no step lost or repeated."""
import vfw  # noqa: F401
import plumpy
from plumpy import process_states as ps
from vfw import programs, sched
from vfw.drive import pick
from vfw.engine import NOTES, Violation, assume
from vfw.sched import GAP, Req

PROPERTY_ID = 'C05'
LEVEL = 'exploration'
S = ps.ProcessState
ACTS = [sched.PAUSE, sched.PLAY, sched.RESUME]
NACT = len(ACTS)
NPOS = 12
BASE_STATUS = 'base-status'
PROGS = [0, 1, 2, 3, 6, 7, 8]  # programs whose uninterrupted run does not depend on request timing


def make_factory(prog):
    def make(loop):
        p = programs.program(prog)(loop=loop)
        p.set_status(BASE_STATUS)
        return p
    return make


def run_reference(prog, rv):
    ref = sched.Run(None, [], resume_default=rv, make=make_factory(prog))
    try:
        ref.go()
        return dict(trace=[(t[0], t[1], t[2]) for t in programs.TRACE], state=ref.proc.state,
                    outputs=dict(ref.proc.outputs), result=ref.proc.result() if ref.proc.state == S.FINISHED else None,
                    notes=[n for n in ref.notes if n[0] in ('output', 'finished', 'excepted', 'killed')])
    finally:
        ref.finish()


def oracle(run, reqs, ref):
    p = run.proc
    # time-ordered facts used to classify known mechanisms
    f = dict(
        pause_while_wakeup_pending=any(r.applied and r.act == sched.PAUSE and r.pre['waiting_future_done'] and not r.pre['terminated'] for r in reqs),
        play_cancelled_pending_pause=any(r.applied and r.act == sched.PLAY and r.pre['pausing'] and not r.pre['paused'] for r in reqs),
        play_cancelled_pause_on_waiting_step=any(r.applied and r.act == sched.PLAY and r.pre['pausing'] and r.pre['state'] == S.WAITING for r in reqs),
        resume_while_interruption_pending=any(r.applied and r.act == sched.RESUME and r.pre['waiting_future_done'] and r.pre['pausing'] for r in reqs),
    )
    # 1. pause()/play() never raise
    for r in reqs:
        if r.applied and r.act in (sched.PAUSE, sched.PLAY) and r.exc is not None:
            raise Violation('pause_or_play_raised', act=sched.ACT_NAMES[r.act], exc=type(r.exc).__name__, live=not r.pre['terminated'], **f)
    # 2./3. nothing runs while the process reports paused; status at every step is the pre-pause status
    for t in programs.TRACE:
        if t[3]:
            raise Violation('ran_while_paused', step=t[0], phase=t[1], **f)
        if t[4] != BASE_STATUS:
            raise Violation('status_not_restored', step=t[0], **f)
    # 4. play() leaves the process un-paused, and it stays so until the next pause()
    playing_since = None   # index into events of the last play with no pause after it
    for i, ev in enumerate(run.events):
        if ev[0] == 'req' and ev[1].act == sched.PLAY:
            if ev[1].post_paused and not any(q.act == sched.PAUSE for q in ev[1].nested):
                raise Violation('paused_directly_after_play', **f)
            playing_since = i
        elif ev[0] == 'policy_play':
            playing_since = i
        elif ev[0] == 'req' and ev[1].act == sched.PAUSE:
            playing_since = None
        # samples taken after this event and before the next one
        if playing_since is not None:
            for (tick, nev, paused) in run.paused_log:
                if nev == i + 1 and paused:
                    raise Violation('paused_again_without_pause', **f)
    # 5. a pause takes effect at the next step boundary: no step is entered between a pause request and the next play
    for i, ev in enumerate(run.events):
        if ev[0] == 'req' and ev[1].act == sched.PAUSE and not ev[1].pre['terminated'] and ev[1].exc is None:
            start = ev[2]
            end = len(programs.TRACE)
            for ev2 in run.events[i + 1:]:
                if ev2[0] == 'policy_play' or (ev2[0] == 'req' and ev2[1].act == sched.PLAY):
                    end = ev2[2]
                    break
            enters = [t for t in programs.TRACE[start:end] if t[1] == 'enter']
            if enters:
                raise Violation('step_entered_after_pause_request', steps=[t[0] for t in enters], **f)
    # 6. same steps, outputs, result and final state as the uninterrupted run
    if p.paused and not p.has_terminated():
        raise Violation('ended_paused', state=str(p.state), **f)
    trace = [(t[0], t[1], t[2]) for t in programs.TRACE]
    if p.state != ref['state']:
        raise Violation('final_state_differs', got=str(p.state), ref=str(ref['state']), **f)
    if len(trace) != len(ref['trace']) or [t[:2] for t in trace] != [t[:2] for t in ref['trace']]:
        raise Violation('step_sequence_differs', got=[t[0] + ':' + t[1] for t in trace], ref=[t[0] + ':' + t[1] for t in ref['trace']], **f)
    if trace != ref['trace']:
        raise Violation('step_arguments_differ', **f)
    if dict(p.outputs) != ref['outputs']:
        raise Violation('outputs_differ', **f)
    if p.state == S.FINISHED and p.result() != ref['result']:
        raise Violation('result_differs', **f)
    if [n for n in run.notes if n[0] in ('output', 'finished', 'excepted', 'killed')] != ref['notes']:
        raise Violation('notifications_differ', **f)
    if p.has_terminated() and not run.task.done():
        raise Violation('stepping_task_not_released', **f)


def _harness(prog, specs, rv, wheres=None):
    # resume(value) on a workchain that awaits futures is a usage error (the outline step takes no argument)
    assume(not (prog == 8 and any(ACTS[a] == sched.RESUME for (_p, a, _t) in specs)))
    ref = run_reference(prog, rv)
    reqs = [Req(wheres[i] if wheres else GAP, pos, ACTS[a], rv, txt) for i, (pos, a, txt) in enumerate(specs)]
    run = sched.Run(None, reqs, resume_default=rv, make=make_factory(prog))
    try:
        run.go()
        oracle(run, reqs, ref)
        live = [r for r in reqs if r.applied and not r.pre['terminated']]
        if any(r.act == sched.PAUSE for r in live):
            NOTES.nontrivial = True
        for r in live:
            if r.act == sched.PAUSE and r.pre['stepping']:
                NOTES.witness('pause_during_step')
            if r.act == sched.PAUSE and r.pre['state'] == S.WAITING:
                NOTES.witness('pause_on_waiting')
            if r.act == sched.PAUSE and not r.pre['stepping']:
                NOTES.witness('pause_between_steps')
            if r.act == sched.PLAY and r.pre['paused']:
                NOTES.witness('play_while_paused')
            if r.act == sched.PLAY and r.pre['pausing']:
                NOTES.witness('play_cancels_pending_pause')
            if r.act == sched.PAUSE and r.where in (sched.H_ENTERING, sched.H_EXITING):
                NOTES.witness('pause_from_state_event_callback')
            if r.act == sched.PAUSE and r.where in (sched.L_RUNNING, sched.L_WAITING):
                NOTES.witness('pause_from_listener_notification')
        if any(e[0] == 'policy_play' for e in run.events):
            NOTES.witness('final_play_by_policy')
        NOTES.info = dict(prog=prog, schedule=sched.describe(reqs), final=str(run.proc.state), steps=len(programs.TRACE))
    finally:
        run.finish()


def sched1(prog: int, rv: int, p0: int, a0: int, t0: str):
    assume(0 <= p0 <= NPOS and len(t0) <= 2)
    _harness(PROGS[pick(prog, len(PROGS))], [(p0, pick(a0, NACT), t0)], rv)


def sched2(prog: int, rv: int, p0: int, a0: int, t0: str, p1: int, a1: int, t1: str):
    assume(0 <= p0 <= p1 <= NPOS and len(t0) <= 2 and len(t1) <= 2)
    _harness(PROGS[pick(prog, len(PROGS))], [(p0, pick(a0, NACT), t0), (p1, pick(a1, NACT), t1)], rv)


def sched3(prog: int, rv: int, p0: int, a0: int, t0: str, p1: int, a1: int, t1: str, p2: int, a2: int, t2: str):
    assume(0 <= p0 <= p1 <= p2 <= NPOS and len(t0) <= 1 and len(t1) <= 1 and len(t2) <= 1)
    _harness(PROGS[pick(prog, len(PROGS))], [(p0, pick(a0, NACT), t0), (p1, pick(a1, NACT), t1), (p2, pick(a2, NACT), t2)], rv)


def sched4(prog: int, rv: int, p0: int, a0: int, p1: int, a1: int, p2: int, a2: int, p3: int, a3: int):
    assume(0 <= p0 <= p1 <= p2 <= p3 <= 7)
    _harness(PROGS[pick(prog, len(PROGS))], [(p0, pick(a0, NACT), 'm'), (p1, pick(a1, NACT), 'm'), (p2, pick(a2, NACT), 'm'),
                                             (p3, pick(a3, NACT), 'm')], rv)


NWHERE = 7   # gap, 4 listener notification kinds, ENTERING_STATE / EXITING_STATE callbacks


def _place(w, pos):
    if w == GAP:
        assume(0 <= pos <= NPOS)
    else:
        assume(0 <= pos <= 3)      # occurrence index of the notification / callback


def schedL1(prog: int, rv: int, w0: int, p0: int, a0: int, t0: str):
    """one request issued from inside a listener notification or a state-event callback (i.e. mid-transition)"""
    assume(len(t0) <= 1)
    w = pick(w0, NWHERE)
    assume(w != GAP)
    _place(w, p0)
    _harness(PROGS[pick(prog, len(PROGS))], [(p0, pick(a0, NACT), t0)], rv, [w])


def schedL2(prog: int, rv: int, w0: int, p0: int, a0: int, t0: str, w1: int, p1: int, a1: int, t1: str):
    """two requests, the first issued mid-transition, the second anywhere"""
    assume(len(t0) <= 1 and len(t1) <= 1)
    wa, wb = pick(w0, NWHERE), pick(w1, NWHERE)
    assume(wa != GAP)
    _place(wa, p0)
    _place(wb, p1)
    _harness(PROGS[pick(prog, len(PROGS))], [(p0, pick(a0, NACT), t0), (p1, pick(a1, NACT), t1)], rv, [wa, wb])


HARNESSES = {'schedL1': schedL1, 'schedL2': schedL2, 'sched1': sched1, 'sched2': sched2, 'sched3': sched3, 'sched4': sched4}


def shards(tier):
    out = []
    for prog in range(len(PROGS)):
        for a0 in range(NACT):
            if tier == 'quick':
                out.append(dict(name=f'schedL1/prog={PROGS[prog]},a0={a0}', harness='schedL1', fixed=dict(prog=prog, a0=a0), budget_s=300))
                if PROGS[prog] in (2, 7):
                    for w0 in range(1, NWHERE):
                        out.append(dict(name=f'schedL2/prog={PROGS[prog]},a0={a0},w0={w0}', harness='schedL2',
                                        fixed=dict(prog=prog, a0=a0, w0=w0), budget_s=600))
                out.append(dict(name=f'sched2/prog={PROGS[prog]},a0={a0}', harness='sched2', fixed=dict(prog=prog, a0=a0), budget_s=300))
                if PROGS[prog] in (1, 2, 3):
                    for a1 in range(NACT):
                        out.append(dict(name=f'sched3/prog={PROGS[prog]},a0={a0},a1={a1}', harness='sched3',
                                        fixed=dict(prog=prog, a0=a0, a1=a1), budget_s=600))
            else:
                for w0 in range(1, NWHERE):
                    out.append(dict(name=f'schedL2/prog={PROGS[prog]},a0={a0},w0={w0}', harness='schedL2',
                                    fixed=dict(prog=prog, a0=a0, w0=w0), budget_s=1800))
                for a1 in range(NACT):
                    out.append(dict(name=f'sched3/prog={PROGS[prog]},a0={a0},a1={a1}', harness='sched3',
                                    fixed=dict(prog=prog, a0=a0, a1=a1), budget_s=1800))
                    if PROGS[prog] in (2, 3):
                        out.append(dict(name=f'sched4/prog={PROGS[prog]},a0={a0},a1={a1}', harness='sched4',
                                        fixed=dict(prog=prog, a0=a0, a1=a1), budget_s=3000))
    return out


BOUNDS = {
    'quick': dict(requests='K = 2 (all programs) and K = 3 (P1, P2, P3) over pause(msg)/play/resume(v) in gaps (the environment additionally plays at every idle point where the process is paused, so pause-play-pause sequences are covered)', positions=f'gaps 0..{NPOS}',
                  programs='P0 P1 P2 P3 P6 P7 P8', data='resume value int (symbolic, same in reference run), pause message str len <= 1..2'),
    'thorough': dict(requests='K = 3 (all programs), K = 4 (P2, P3)', positions=f'gaps 0..{NPOS}', programs='P0 P1 P2 P3 P6 P7 P8', data='resume value int; pause message fixed'),
}
OUTSIDE = ['kill/fail requests mixed in (C04/C02)', 'requests issued from listeners', 'more than K requests', 'programs that fail or are killed by command (timing-dependent reference)']
RULE = 'paths over (program, K pause/play/resume requests with positions, pause message, resume value); non-trivial when a pause() was applied to the live process'
SOLVER_ROLE = 'selector role for placement/action; data role for the resume value (trace arguments and result compared symbolically with the reference run of the same path)'
EXPLANATION = 'differential check against the uninterrupted run in the same path + paused/status flags sampled at every step entry'
ASSUMPTIONS = ['environment at idle ticks: play a paused process (the final play of the property), resume a waiting process with the same value v used by resume requests']
REQUIRED_WITNESSES = ['pause_during_step', 'pause_on_waiting', 'pause_between_steps', 'play_while_paused', 'play_cancels_pending_pause', 'final_play_by_policy']
LEVEL_TEXT = ('bounded exhaustive symbolic exploration of pause/play/resume schedules; every run is compared with the uninterrupted run of the same '
              'program (steps, arguments, outputs, result, notifications), no step entry may observe paused=True or a foreign status, pause()/play() never raise')
