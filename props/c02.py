"""C02 - all reports of a terminated process's outcome agree and waiters are released."""
import vfw  # noqa: F401
import plumpy
from plumpy import process_states as ps
from plumpy.process_comms import MESSAGE_TEXT_KEY
from vfw import programs, sched
from vfw.drive import pick
from vfw.engine import NOTES, Violation, assume
from vfw.sched import GAP, Req

PROPERTY_ID = 'C02'
LEVEL = 'exploration'
S = ps.ProcessState
ACTS = [sched.PAUSE, sched.PLAY, sched.KILL, sched.RESUME, sched.FAIL, sched.CS_RAISE, sched.CANCEL]
NACT = len(ACTS)
NWHERE = 7  # gap + 4 listener notification kinds + ENTERING_STATE / EXITING_STATE callbacks
NPOS = 12


def _raises(fn, exc_type):
    try:
        fn()
    except exc_type:
        return True
    except Exception:  # noqa: BLE001
        return False
    return False


def oracle(run: sched.Run, reqs, step_cleanups) -> None:
    p = run.proc
    st = p.state
    kills = [r for r in reqs if r.applied and r.act == sched.KILL]
    facts = dict(
        killed_while_paused=any(r.pre['paused'] and not r.pre['terminated'] for r in kills),
        failed_while_paused=any(r.applied and r.act in (sched.FAIL,) and r.pre['paused'] and not r.pre['terminated'] for r in reqs),
        state=str(st),
    )
    if run.future_done_while_live:
        raise Violation('future_resolved_while_live', **facts)
    if not p.has_terminated():
        if (run.future.done() and not run.future.cancelled()) or (p.future().done() and not p.future().cancelled()):
            raise Violation('future_resolved_while_live', **facts)
        return
    fut = p.future()
    if fut is not run.future:
        # the original future object handed out before must report the same outcome
        if not run.future.done():
            raise Violation('original_future_never_resolved', **facts)
    if not fut.done():
        raise Violation('future_pending_after_termination', **facts)
    terminal_notes = [n for n in run.notes if n[0] in ('finished', 'excepted', 'killed')]
    if len(terminal_notes) != 1:
        raise Violation('terminal_notifications', count=len(terminal_notes), kinds=[n[0] for n in terminal_notes], **facts)
    if st == S.FINISHED:
        if terminal_notes[0][0] != 'finished':
            raise Violation('wrong_terminal_notification', got=terminal_notes[0][0], **facts)
        if fut.cancelled() or fut.exception() is not None:
            raise Violation('finished_but_future_failed', **facts)
        if fut.result() != p.outputs or terminal_notes[0][1] != p.outputs:
            raise Violation('future_result_not_outputs', **facts)
        last = [t for t in programs.TRACE if t[1] == 'enter'][-1]
        name = type(p).__name__
        expect_succ = name != 'P6'
        if name == 'P0':
            want = 7
        elif name == 'P1':
            want = 3
        elif name == 'P6':
            want = 4
        elif name in ('P2', 'P3', 'P8'):
            want = last[2][0]
        elif name == 'P7':
            want = 2
        elif name == 'P10':
            want = 5
            expect_succ = False
        else:
            raise Violation('unexpected_finish', prog=name, **facts)
        if p.result() != want:
            raise Violation('wrong_result', prog=name, **facts)
        if p.successful() != expect_succ or p.is_successful != expect_succ:
            raise Violation('wrong_success_flag', prog=name, **facts)
        if p.killed() or p.exception() is not None or not _raises(p.killed_msg, plumpy.InvalidStateError):
            raise Violation('finished_views_disagree', **facts)
    elif st == S.EXCEPTED:
        if terminal_notes[0][0] != 'excepted':
            raise Violation('wrong_terminal_notification', got=terminal_notes[0][0], **facts)
        exc = p.exception()
        if exc is None:
            raise Violation('excepted_without_exception', **facts)
        if fut.cancelled() or fut.exception() is not exc:
            raise Violation('future_exception_differs', **facts)
        try:
            p.result()
            raise Violation('result_did_not_raise', **facts)
        except Violation:
            raise
        except BaseException as e:  # noqa: BLE001
            if e is not exc:
                raise Violation('result_raised_other', **facts)
        if p.is_successful or p.killed() or not _raises(p.successful, plumpy.InvalidStateError):
            raise Violation('excepted_views_disagree', **facts)
        # the exception must be one that user code / a request actually raised
        origin = [r.handle for r in reqs if r.applied and r.act == sched.FAIL]
        ok = isinstance(exc, (programs.Boom, sched.Injected)) or any(exc is h for h in origin)
        if isinstance(exc, TypeError) and type(p).__name__ == 'P8' and any(r.applied and r.act == sched.RESUME for r in reqs):
            ok = True  # resume(value) on a workchain awaiting futures: the outline step rejects the argument (user-level error)
        if not ok:
            raise Violation('excepted_with_foreign_exception', exc=type(exc).__name__, msg=str(exc)[:80], **facts)
        if terminal_notes[0][1] != str(exc):
            raise Violation('excepted_notification_text', **facts)
    elif st == S.KILLED:
        if terminal_notes[0][0] != 'killed':
            raise Violation('wrong_terminal_notification', got=terminal_notes[0][0], **facts)
        msg = p.killed_msg()
        text = msg[MESSAGE_TEXT_KEY]
        candidates = [r.txt for r in kills] + ['by-command', 'Killed by future being cancelled']
        if not any(text == c for c in candidates):
            raise Violation('kill_text_unknown', **facts)
        e = fut.exception() if not fut.cancelled() else None
        if not isinstance(e, plumpy.KilledError) or len(e.args) != 1 or e.args[0] != (text or ''):
            raise Violation('future_not_killed_error', got=type(e).__name__, **facts)
        if not p.killed() or p.is_successful or p.exception() is not None:
            raise Violation('killed_views_disagree', **facts)
        if not _raises(p.result, plumpy.KilledError) or not _raises(p.successful, plumpy.InvalidStateError):
            raise Violation('killed_views_disagree2', **facts)
        if terminal_notes[0][1] != msg:
            raise Violation('killed_notification_msg', **facts)
    # resources
    if run.cleanups['a'] != 1:
        raise Violation('cleanup_count', which='registered_at_creation', count=run.cleanups['a'], **facts)
    if step_cleanups['registered'] and step_cleanups['ran'] != 1:
        raise Violation('cleanup_count', which='registered_in_step', count=step_cleanups['ran'], **facts)
    if not _raises(lambda: p.add_cleanup(lambda: None), plumpy.ClosedError):
        raise Violation('not_closed', **facts)
    if not run.task.done():
        last = run.entered[-1] if run.entered else (None, None, None)
        raise Violation('stepping_task_not_released',
                        failed_directly_in_waiting_step=bool(last[0] == S.WAITING and last[1] == S.EXCEPTED and isinstance(p.exception(), sched.Injected)),
                        **facts)
    if run.task.cancelled() or run.task.exception() is not None:
        raise Violation('stepping_task_failed', err=repr(run.task.exception())[:100] if not run.task.cancelled() else 'cancelled', **facts)


def _harness(prog, specs):
    reqs = [Req(w, pos, ACTS[a], val, txt) for (w, pos, a, val, txt) in specs]
    step_cleanups = dict(registered=False, ran=0)

    def ran():
        step_cleanups['ran'] += 1

    def hook(proc, name, phase):
        if not step_cleanups['registered'] and phase == 'enter':
            step_cleanups['registered'] = True
            proc.add_cleanup(ran)

    programs.ENV['step_hook'] = hook
    run = sched.Run(programs.program(prog), reqs)
    try:
        run.go()
        oracle(run, reqs, step_cleanups)
        live = [r for r in reqs if r.applied and not r.pre['terminated']]
        if live and run.proc.has_terminated():
            NOTES.nontrivial = True
        for r in live:
            if r.act == sched.KILL and r.pre['paused']:
                NOTES.witness('kill_while_paused')
            if r.act == sched.KILL and r.pre['stepping'] and not r.pre['in_listener']:
                NOTES.witness('kill_during_step')
            if r.act == sched.KILL and r.pre['in_listener']:
                NOTES.witness('kill_from_listener')
            if r.act == sched.FAIL:
                NOTES.witness('fail_request_live')
        if run.proc.state == S.KILLED:
            NOTES.witness('ended_killed')
        if run.proc.state == S.EXCEPTED:
            NOTES.witness('ended_excepted')
        if run.proc.state == S.FINISHED:
            NOTES.witness('ended_finished')
        NOTES.info = dict(prog=prog, schedule=sched.describe(reqs), final=str(run.proc.state))
    finally:
        programs.ENV.pop('step_hook', None)
        run.finish()


def _pos_ok(w, pos):
    if w == GAP:
        assume(0 <= pos <= NPOS)
    else:
        assume(0 <= pos <= 2)  # occurrence index of the listener notification


def sched1(prog: int, w0: int, p0: int, a0: int, v0: int, t0: str):
    assume(len(t0) <= 2)
    w = pick(w0, NWHERE)
    _pos_ok(w, p0)
    _harness(pick(prog, programs.N_PROGRAMS), [(w, p0, pick(a0, NACT), v0, t0)])


def sched2(prog: int, w0: int, p0: int, a0: int, v0: int, t0: str, w1: int, p1: int, a1: int, v1: int, t1: str):
    assume(len(t0) <= 2 and len(t1) <= 2)
    wa, wb = pick(w0, NWHERE), pick(w1, NWHERE)
    _pos_ok(wa, p0)
    _pos_ok(wb, p1)
    if wa == GAP and wb == GAP:
        assume(p0 <= p1)
    _harness(pick(prog, programs.N_PROGRAMS), [(wa, p0, pick(a0, NACT), v0, t0), (wb, p1, pick(a1, NACT), v1, t1)])


def sched3(prog: int, p0: int, a0: int, v0: int, t0: str, p1: int, a1: int, v1: int, t1: str, p2: int, a2: int,
           v2: int, t2: str):
    assume(0 <= p0 <= p1 <= p2 <= NPOS)
    assume(len(t0) <= 1 and len(t1) <= 1 and len(t2) <= 1)
    _harness(pick(prog, programs.N_PROGRAMS), [(GAP, p0, pick(a0, NACT), v0, t0), (GAP, p1, pick(a1, NACT), v1, t1),
                                               (GAP, p2, pick(a2, NACT), v2, t2)])


HARNESSES = {'sched1': sched1, 'sched2': sched2, 'sched3': sched3}


def shards(tier):
    out = []
    for prog in range(programs.N_PROGRAMS):
        for a0 in range(NACT):
            if tier == 'quick':
                out.append(dict(name=f'sched2/prog={prog},a0={a0},gaps', harness='sched2',
                                fixed=dict(prog=prog, a0=a0, w0=0, w1=0), budget_s=240))
                out.append(dict(name=f'sched1/prog={prog},a0={a0}', harness='sched1', fixed=dict(prog=prog, a0=a0), budget_s=120))
            else:
                out.append(dict(name=f'sched2/prog={prog},a0={a0},gaps', harness='sched2',
                                fixed=dict(prog=prog, a0=a0, w0=0, w1=0), budget_s=600))
                if prog in (2, 3, 8, 10):
                    for w0 in range(1, NWHERE):
                        out.append(dict(name=f'sched2/prog={prog},a0={a0},w0={w0}', harness='sched2',
                                        fixed=dict(prog=prog, a0=a0, w0=w0), budget_s=1500))
                if prog in (1, 2, 3):
                    for a1 in range(NACT):
                        out.append(dict(name=f'sched3/prog={prog},a0={a0},a1={a1}', harness='sched3',
                                        fixed=dict(prog=prog, a0=a0, a1=a1), budget_s=1500))
    return out


BOUNDS = {
    'quick': dict(requests='K = 2 between loop callbacks; K = 1 issued from inside a listener notification (running/waiting/paused/played) or an ENTERING_STATE/EXITING_STATE callback during the transition at the end of a step (occurrence 0..2)',
                  actions=[sched.ACT_NAMES[a] for a in ACTS], positions=f'gaps 0..{NPOS} + after termination', programs='P0..P10',
                  data='resume values int, kill/pause texts str len <= 2'),
    'thorough': dict(requests='K = 2 in gaps (all programs); K = 2 with each request in a gap, a listener notification or a state-event callback (P2 P3 P8 P10); K = 3 in gaps (P1 P2 P3)',
                     actions=[sched.ACT_NAMES[a] for a in ACTS], positions=f'gaps 0..{NPOS}', programs='P0..P10', data='int, str len <= 2 (<= 1 for K = 3)'),
}
OUTSIDE = ['hooks that raise (C03)', 'more than K requests', 'communicator-borne requests (C16)']
RULE = ('paths over (program, K requests with position/listener placement, action, value, text); non-trivial when at least one request was '
        'applied to the live process and the process terminated, so that the full outcome table was evaluated')
SOLVER_ROLE = 'selector role for placement/action (exhaustive pruned case split + exhaustion verdict); data role for resume values and kill texts (result()/killed_msg() compared symbolically)'
EXPLANATION = 'agreement of state, future, result(), successful(), killed_msg(), exception(), listener notification, cleanups, closedness and stepping-task release in every reachable terminal configuration'
ASSUMPTIONS = ['environment policy at idle ticks: play a paused process, resume a waiting one / complete its awaited future',
               'requests from ENTERING_STATE/EXITING_STATE callbacks are issued only during transitions performed by step(); the future is not sampled in the middle of the transition into a terminal state']
REQUIRED_WITNESSES = ['kill_while_paused', 'kill_during_step', 'kill_from_listener', 'fail_request_live', 'ended_killed', 'ended_excepted', 'ended_finished']
LEVEL_TEXT = ('bounded exhaustive symbolic exploration of control-request schedules (incl. kill while paused, during a step and from a '
              'listener); at termination all outcome views must agree, exactly one terminal notification, cleanups once, closed, stepping task released, and the future is never resolved while live')
