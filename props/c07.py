"""C07 - save, load, save again yields the same bundle and the same observable process (three media)."""
import copy
import pickle

import yaml

import vfw  # noqa: F401
import plumpy
from plumpy import loaders, process_states as ps
from plumpy.base.state_machine import StateEventHook
from plumpy.persistence import LoadSaveContext
from vfw import outlines, programs, sched
from vfw.drive import cleanup, fresh_loop, pick
from vfw.engine import NOTES, Violation, assume
from vfw.sched import GAP, Req

PROPERTY_ID = 'C07'
LEVEL = 'exploration'
S = ps.ProcessState
MEDIA = ['deepcopy', 'pickle', 'yaml']
POINTS: list = []


class IO(plumpy.Process):
    """inputs with defaults and a namespace, nested/dynamic outputs, continuation arguments, wait data, unsuccessful end"""

    @classmethod
    def define(cls, spec):
        super().define(spec)
        spec.input('a', valid_type=int, default=3)
        spec.input_namespace('ns', dynamic=True)
        spec.input('ns.b', valid_type=str, required=False)
        spec.outputs.dynamic = True

    def run(self):
        self.out('x', self.inputs.a)
        self.out('n.y', 'v')
        self.set_status('running io')
        return ps.Continue(self.s1, 5, kw='k')

    def s1(self, n, kw=None):
        self.out('n.deep.z', [n, kw])
        return ps.Wait(self.s2, 'waiting for resume', {'d': [1, 'two']})

    def s2(self, v):
        return plumpy.UnsuccessfulResult(7)


class PausedRecorder(plumpy.ProcessListener):
    """listener without references to the harness: it is persisted with the process (EventHelper deep-copies its listeners)"""

    def on_process_paused(self, process):
        snap(process, 'paused')


W_DESCS = [
    (('s',), ('if', ((('s',), ('s',)),), (('s',),)), ('while', (('s',),)), ('s',)),
    (('while', (('if', ((('s',),), (('ret', 4),)), None), ('s',))),),
]


def get_programs():
    ws = [outlines.make_class(f'C07_W{i}', d) for i, d in enumerate(W_DESCS)]
    return list(programs.PROGRAMS) + [IO] + ws


NPROG = len(programs.PROGRAMS) + 1 + len(W_DESCS)


def accessors(p):
    d = dict(pid=p.pid, state=p.state, raw_inputs=vplain(p.raw_inputs), inputs=vplain(p.inputs), outputs=vplain(p.outputs),
             status=p.status, paused=p.paused, creation_time=p.creation_time, ctx=vplain(getattr(p, 'ctx', None).__dict__) if hasattr(p, 'ctx') else None)
    if p.state == S.FINISHED:
        d['outcome'] = ('finished', p.result(), p.successful())
    elif p.state == S.KILLED:
        d['outcome'] = ('killed', p.killed_msg())
    elif p.state == S.EXCEPTED:
        d['outcome'] = ('excepted', type(p.exception()).__name__, getattr(p.exception(), 'args', None))
    return d


def vplain(x):
    from collections.abc import Mapping
    if x is None:
        return None
    if isinstance(x, Mapping):
        return {k: vplain(v) for k, v in x.items()}
    return x


WANT = [None]


def snap(proc, why):
    if WANT[0] is not None and len(POINTS) != WANT[0]:
        POINTS.append((why, str(proc.state), None, None, 'skipped'))
        return
    try:
        b = copy.deepcopy(plumpy.Bundle(proc, SAVE_CTX[0]))
        POINTS.append((why, str(proc.state), b, accessors(proc), None))
    except Exception as e:  # noqa: BLE001
        POINTS.append((why, str(proc.state), None, None, e))


SAVE_CTX = [None]


def same(a, b, path='', ignore=('traceback',)):
    """structural equality; returns None or the path of the first difference"""
    if isinstance(a, dict) and isinstance(b, dict):
        ka = {k for k in a if k not in ignore}
        kb = {k for k in b if k not in ignore}
        if ka != kb:
            return f'{path}: keys {sorted(map(str, ka ^ kb))}'
        for k in ka:
            r = same(a[k], b[k], f'{path}/{k}', ignore)
            if r:
                return r
        return None
    if isinstance(a, (list, tuple)) and isinstance(b, (list, tuple)):
        if type(a) is not type(b) or len(a) != len(b):
            return f'{path}: sequence {type(a).__name__}[{len(a)}] vs {type(b).__name__}[{len(b)}]'
        for i, (x, y) in enumerate(zip(a, b)):
            r = same(x, y, f'{path}[{i}]', ignore)
            if r:
                return r
        return None
    if isinstance(a, (set, frozenset)) and isinstance(b, (set, frozenset)):
        if len(a) != len(b):
            return f'{path}: set sizes'
        la, lb = sorted(a, key=lambda o: type(o).__name__), sorted(b, key=lambda o: type(o).__name__)
        for i, (x, y) in enumerate(zip(la, lb)):
            r = same(x, y, f'{path}{{{i}}}', ignore)
            if r:
                return r
        return None
    if isinstance(a, BaseException) and isinstance(b, BaseException):
        return None if (type(a) is type(b) and a.args == b.args) else f'{path}: exception'
    if type(a) is not type(b):
        return f'{path}: type {type(a).__name__} vs {type(b).__name__}'
    if a == b:
        return None
    if hasattr(a, '__dict__') and not isinstance(a, type):
        return same(vars(a), vars(b), path + '.__dict__', ignore)
    return f'{path}: value'


class AliasLoader(loaders.DefaultObjectLoader):
    """custom loader: prefixes every identifier"""

    def identify_object(self, obj):
        return 'c07!' + super().identify_object(obj)

    def load_object(self, identifier):
        if identifier.startswith('c07!'):
            identifier = identifier[4:]
        return super().load_object(identifier)


def roundtrip(prog: int, point: int, medium: int, custom_loader: bool, act: int, pos: int):
    """act: 0 none, 1 pause at pos (environment plays later), 2 kill at pos, 3 fail at pos"""
    progs = get_programs()
    pi = pick(prog, NPROG)
    md = pick(medium, 3)
    ac = pick(act, 4)
    if ac == 0:
        assume(pos == 0)
    else:
        assume(0 <= pos <= 8)
    del POINTS[:]
    WANT[0] = pick(point, MAXPOINTS)
    SAVE_CTX[0] = LoadSaveContext(loader=AliasLoader()) if custom_loader else None
    import props.c08 as c08
    c08.install_streams([True, True, False, True, False], [0, 0, 1, 0, 0, 0])
    cls = progs[pi]
    if cls.__name__.startswith('C07_W') and not cls.spec().sealed:
        cls.spec().outputs.dynamic = True
    reqs = []
    if ac == 1:
        reqs = [Req(GAP, pos, sched.PAUSE, 0, 'pause msg')]
    elif ac == 2:
        reqs = [Req(GAP, pos, sched.KILL, 0, 'kill msg')]
    elif ac == 3:
        reqs = [Req(GAP, pos, sched.FAIL, 0, '')]

    def make(loop):
        if cls is IO:
            p = cls(inputs={'ns': {'b': 'bee', 'dyn': {'k': [1, 2]}}}, loop=loop)
        elif cls.__name__ in ('P0', 'P3'):
            p = cls(inputs={}, loop=loop)   # explicitly empty inputs are not the same as no inputs
        else:
            p = cls(loop=loop)
        p.add_process_listener(PausedRecorder())
        p.add_state_event_callback(StateEventHook.ENTERED_STATE, lambda sm, h, st: snap(sm, 'entered'))
        snap(p, 'created')
        return p

    saved_listener = sched.Listener
    run = None
    try:
        run = sched.Run(None, reqs, make=make, resume_default=11, attach_listener=False)
        run.go()
    finally:
        if run is not None:
            run.finish()
    k = WANT[0]
    assume(k < len(POINTS))
    why, state, b1, acc1, save_exc = POINTS[k]
    facts = dict(program=cls.__name__, point=f'{why}@{state}#{k}', medium=MEDIA[md], custom_loader=custom_loader, request=['none', 'pause', 'kill', 'fail'][ac])
    if b1 is None:
        # cannot be saved at this point (e.g. a workchain waiting on live futures): counted, not a violation
        NOTES.witness('point_cannot_be_saved')
        NOTES.info = dict(facts, cannot_save=type(save_exc).__name__)
        return
    # transport
    try:
        if md == 0:
            b = copy.deepcopy(b1)
        elif md == 1:
            b = pickle.loads(pickle.dumps(b1))
        else:
            b = yaml.load(yaml.dump(b1), Loader=yaml.Loader)
    except Exception as e:  # noqa: BLE001
        raise Violation('transport_failed', err=type(e).__name__, msg=str(e)[:120], **facts)
    if type(b) is not plumpy.Bundle:
        raise Violation('transport_changed_bundle_type', got=type(b).__name__, **facts)
    loop = fresh_loop()
    loaded = None
    try:
        try:
            loaded = b.unbundle(LoadSaveContext(loop=loop))
        except Exception as e:  # noqa: BLE001
            raise Violation('load_failed', err=type(e).__name__, msg=str(e)[:160], **facts)
        try:
            b2 = plumpy.Bundle(loaded, SAVE_CTX[0])
        except Exception as e:  # noqa: BLE001
            raise Violation('second_save_failed', err=type(e).__name__, msg=str(e)[:160], **facts)
        d = same(dict(b1), dict(b2))
        if d:
            raise Violation('bundle_differs_after_roundtrip', where=d[:200], **facts)
        d = same(acc1, accessors(loaded))
        if d:
            raise Violation('loaded_process_differs', where=d[:200], **facts)
        NOTES.nontrivial = True
        NOTES.witness('medium_' + MEDIA[md])
        if acc1['paused']:
            NOTES.witness('paused_point')
        if state in ('ProcessState.KILLED', 'ProcessState.EXCEPTED'):
            NOTES.witness('terminal_failure_state')
        if state == 'ProcessState.WAITING':
            NOTES.witness('waiting_state')
        if custom_loader:
            NOTES.witness('custom_loader')
        NOTES.info = facts
    finally:
        if loaded is not None:
            cleanup(loop, [loaded])


MAXPOINTS = 14
HARNESSES = {'roundtrip': roundtrip}


def shards(tier):
    out = []
    for prog in range(NPROG):
        for medium in range(3):
            for act in range(4):
                if tier == 'quick' and act >= 2 and medium != 2:
                    continue
                out.append(dict(name=f'roundtrip/prog={prog},medium={medium},act={act}', harness='roundtrip',
                                fixed=dict(prog=prog, medium=medium, act=act), budget_s=400 if tier == 'quick' else 2400))
    return out


BOUNDS = {t: dict(programs='P0..P8, IO (inputs with defaults/namespace, nested dynamic outputs, continuation args, wait data, unsuccessful result), 2 workchains with if/while/return',
                  save_points='CREATED, every state entry (inside the ENTERED_STATE callback) and every on_process_paused notification of the run',
                  scenario='no request / pause / kill / fail at every gap 0..8 (quick tier: kill and fail only with the YAML medium)', media=MEDIA, loader='default or custom (recorded in the bundle)', data='concrete (pickle and YAML cross a C boundary)')
          for t in ('quick', 'thorough')}
OUTSIDE = ['symbolic data through pickle/YAML', 'tracebacks of excepted processes (tblib not installed: ignored as the property allows)', 'points at which plumpy cannot save (live futures in a waiting workchain): counted only']
RULE = 'paths over (program, request kind and position, save point, medium, loader); non-trivial when the bundle travelled through the medium, was loaded, saved again and compared'
SOLVER_ROLE = 'selector role only: the solver enumerates and prunes (program, scenario, point, medium, loader) and certifies exhaustion; all process data is concrete here'
EXPLANATION = 'Bundle(p) vs Bundle(load(transport(Bundle(p)))) structurally + public accessors of the loaded process'
ASSUMPTIONS = ['structural comparison: exceptions by type and args, objects by type and __dict__, traceback text ignored']
REQUIRED_WITNESSES = ['medium_deepcopy', 'medium_pickle', 'medium_yaml', 'paused_point', 'terminal_failure_state', 'waiting_state', 'custom_loader', 'point_cannot_be_saved']
LEVEL_TEXT = ('bounded exhaustive (solver-driven) enumeration of save points x media x loaders over 12 programs and 4 scenarios: save-load-save is a fixed point and the loaded process '
              'reports the same pid, state, inputs, outputs, ctx, status, paused flag, creation time and outcome')
