"""C19 - any Savable round-trips its declared members through the named loader."""
import sys

import vfw  # noqa: F401
import plumpy
from plumpy import loaders, persistence
from plumpy.persistence import LoadSaveContext, Savable, SavableFuture, auto_persist
from vfw.drive import fresh_loop, pick
from vfw.engine import NOTES, Violation, assume

PROPERTY_ID = 'C19'
LEVEL = 'exploration'


class Boom(Exception):
    pass


@auto_persist('x')
class Inner(Savable):
    def __init__(self, x):
        self.x = x


@auto_persist('y', 'inner')
class Inner2(Savable):
    def __init__(self, y, inner):
        self.y = y
        self.inner = inner


@auto_persist('a')
class Base(Savable):
    def __init__(self):
        self.a = None
        self.not_saved = 'runtime only'

    def meth(self):
        return ('meth', id(self))


@auto_persist('b', 'm')
class Mid(Base):
    def __init__(self):
        super().__init__()
        self.b = None
        self.m = self.meth


@auto_persist('c', 'child', 'fut')
class Leaf(Mid):
    def __init__(self):
        super().__init__()
        self.c = None
        self.child = None
        self.fut = None


@auto_persist('c', 'a')   # re-declares a member of the base as well
class Leaf2(Base):
    def __init__(self):
        super().__init__()
        self.c = None


class Empty(Savable):
    pass


SHAPES = [Base, Mid, Leaf, Leaf2, Empty]
ALIASES = {'Inner': Inner, 'Inner2': Inner2, 'Base': Base, 'Mid': Mid, 'Leaf': Leaf, 'Leaf2': Leaf2, 'Empty': Empty}


class CustomLoader(loaders.DefaultObjectLoader):
    """custom loader with non-default identifiers for the test classes; records the identifiers it is asked to load"""
    CALLS = []

    def identify_object(self, obj):
        for alias, cls in ALIASES.items():
            if obj is cls:
                return 'alias!' + alias
        return super().identify_object(obj)

    def load_object(self, identifier):
        CustomLoader.CALLS.append(identifier)
        if identifier.startswith('alias!'):
            try:
                return ALIASES[identifier[len('alias!'):]]
            except KeyError:
                raise ValueError(f'unknown alias {identifier}')
        return super().load_object(identifier)


FUT_STATES = ['pending', 'result', 'exception', 'cancelled']


def build(shape, v, s, fstate, depth2, loop):
    obj = SHAPES[shape]()
    exc = Boom('saved')
    if shape != 4:
        obj.a = v
    if shape in (1, 2):
        obj.b = [v, s, {'k': [s]}]
    if shape == 2:
        obj.c = s
        obj.child = Inner2(v, Inner(s)) if depth2 else Inner(v)
        fut = SavableFuture(loop=loop)
        if fstate == 1:
            fut.set_result(v)
        elif fstate == 2:
            fut.set_exception(exc)
        elif fstate == 3:
            fut.cancel()
        obj.fut = fut
    if shape == 3:
        obj.c = (v, [s], frozenset([(1, 2)]))
    return obj, exc


def same_future(f, g, facts):
    def st(x):
        if not x.done():
            return ('pending',)
        if x.cancelled():
            return ('cancelled',)
        if x.exception() is not None:
            return ('exception', type(x.exception()), x.exception().args)
        return ('result', x.result())
    if st(f) != st(g):
        raise Violation('future_state_differs', want=st(f)[0], got=st(g)[0], **facts)


def check_members(obj, new, shape, facts):
    if type(new) is not type(obj):
        raise Violation('wrong_class', got=type(new).__name__, **facts)
    if new is obj:
        raise Violation('same_object', **facts)
    if shape != 4 and new.a != obj.a:
        raise Violation('member_differs', member='a', **facts)
    if hasattr(new, 'not_saved'):
        raise Violation('undeclared_member_restored', **facts)
    if shape in (1, 2):
        if new.b != obj.b:
            raise Violation('member_differs', member='b', **facts)
        if new.b is obj.b or new.b[2] is obj.b[2]:
            raise Violation('member_not_copied', member='b', **facts)
        if getattr(new.m, '__self__', None) is not new or new.m.__func__ is not obj.m.__func__:
            raise Violation('method_not_rebound', **facts)
    if shape == 2:
        if new.c != obj.c:
            raise Violation('member_differs', member='c', **facts)
        if type(new.child) is not type(obj.child) or new.child is obj.child:
            raise Violation('nested_savable_not_recreated', **facts)
        if isinstance(obj.child, Inner2):
            if new.child.y != obj.child.y or type(new.child.inner) is not Inner or new.child.inner.x != obj.child.inner.x \
                    or new.child.inner is obj.child.inner:
                raise Violation('nested_savable_depth2', **facts)
        elif new.child.x != obj.child.x:
            raise Violation('nested_savable_member', **facts)
        if not isinstance(new.fut, SavableFuture) or new.fut is obj.fut:
            raise Violation('future_not_recreated', **facts)
        same_future(obj.fut, new.fut, facts)
    if shape == 3:
        if new.c != obj.c:
            raise Violation('member_differs', member='c', **facts)
        if new.c[1] is obj.c[1]:
            raise Violation('member_not_copied', member='c (mutable inside a tuple)', **facts)


def roundtrip(shape: int, fstate: int, depth2: bool, lmode: int, v: int, s: str, reuse: int = 0):
    """lmode: 0 default loader; 1 global custom loader; 2 custom loader given for this save only (recorded in the
    saved state), nothing given on load; 3 custom loader given on save and on load"""
    assume(len(s) <= 2)
    sh = pick(shape, len(SHAPES))
    fs = pick(fstate, 4)
    lm = pick(lmode, 4)
    if sh != 2:
        assume(fs == 0 and not depth2)
    ru = pick(reuse, 3)   # the caller's loader-less load context is used for another state: 0 no, 1 afterwards, 2 before
    assume(ru == 0 or lm == 2)
    loop = fresh_loop()
    facts = dict(shape=SHAPES[sh].__name__, future=FUT_STATES[fs] if sh == 2 else None, loader_mode=lm)
    obj, exc = build(sh, v, s, fs, depth2, loop)
    custom = CustomLoader()
    del CustomLoader.CALLS[:]
    saved_default = loaders.OBJECT_LOADER
    try:
        if lm == 1:
            loaders.set_object_loader(custom)
        save_ctx = LoadSaveContext(loader=custom) if lm in (2, 3) else None
        try:
            state = obj.save(save_ctx)
        except BaseException as e:  # noqa: BLE001
            if isinstance(e, Exception) or type(e).__name__ == 'CancelledError':
                raise Violation('save_raised', err=type(e).__name__, **facts)
            raise
        # the class name is recorded with the identifier of the loader in force
        cname = state['!!meta']['class_name']
        if (lm == 0) != (not cname.startswith('alias!')):
            raise Violation('class_identifier', got=cname, **facts)
        # mutation of the original after the save must not show
        import copy
        if sh in (1, 2):
            obj.b.append('later')
            obj.b[2]['k'].append('later')
            if state['b'] != [v, s, {'k': [s]}]:
                raise Violation('later_mutation_shows_in_saved_state', **facts)
            obj.b.pop()
            obj.b[2]['k'].pop()
        if sh == 3:
            obj.c[1].append('later')
            if state['c'][1] != [s]:
                raise Violation('later_mutation_shows_in_saved_state', member='c', **facts)
            obj.c[1].pop()
        del CustomLoader.CALLS[:]
        load_ctx = LoadSaveContext(loader=custom, loop=loop) if lm == 3 else LoadSaveContext(loop=loop)

        def load_other():
            # a state saved with the global default loader, loaded through the same (loader-less) context object
            other = Base()
            other.a = v
            st = other.save()
            n0 = len(CustomLoader.CALLS)
            try:
                got = Savable.load(st, load_ctx)
            except Exception as e:  # noqa: BLE001
                raise Violation('reused_context_load_raised', err=type(e).__name__, order=ru, **facts)
            if type(got) is not Base or got.a != v:
                raise Violation('reused_context_wrong_object', order=ru, **facts)
            if len(CustomLoader.CALLS) != n0:
                raise Violation('loader_of_another_state_consulted', order=ru, **facts)
            NOTES.witness('load_context_reused')

        if ru == 2:
            load_other()
        try:
            new = Savable.load(state, load_ctx)
        except Exception as e:  # noqa: BLE001
            raise Violation('load_raised', err=type(e).__name__, msg=str(type(e)), reuse=ru, **facts)
        if ru == 1:
            load_other()
        check_members(obj, new, sh, facts)
        if lm in (1, 2, 3):
            if cname not in CustomLoader.CALLS:
                raise Violation('custom_loader_not_used', calls=list(CustomLoader.CALLS), **facts)
            NOTES.witness('custom_loader_resolved_class')
        # fixed point: save(load(s)) == s
        state2 = new.save(save_ctx)
        if state2 != state:
            diff = sorted(k for k in set(state) | set(state2) if state.get(k) != state2.get(k))
            raise Violation('save_load_save_differs', keys=diff, **facts)
        NOTES.nontrivial = True
        if sh == 2:
            NOTES.witness('future_' + FUT_STATES[fs])
            if depth2:
                NOTES.witness('nested_depth2')
        NOTES.info = facts
    finally:
        loaders.set_object_loader(saved_default)


def unknown(kind: int, lmode: int):
    """an unknown class identifier is a ValueError rather than a wrong object"""
    k = pick(kind, 4)
    lm = pick(lmode, 2)
    ident = ['props.c19:DoesNotExist', 'no.such.module:Thing', 'not-an-identifier', 'alias!Nope'][k]
    fresh_loop()
    state = Base().save()
    state['!!meta']['class_name'] = ident
    ctx = LoadSaveContext(loader=CustomLoader()) if lm else None
    try:
        obj = Savable.load(state, ctx)
    except ValueError:
        NOTES.nontrivial = True
        NOTES.witness('unknown_class_valueerror')
        return
    except Exception as e:  # noqa: BLE001
        raise Violation('unknown_class_other_exception', err=type(e).__name__, ident=ident)
    raise Violation('unknown_class_loaded_something', got=type(obj).__name__, ident=ident)


HARNESSES = {'roundtrip': roundtrip, 'unknown': unknown}


def shards(tier):
    out = [dict(name='unknown', harness='unknown', fixed={}, budget_s=200)]
    for shape in range(len(SHAPES)):
        for lmode in range(4):
            out.append(dict(name=f'roundtrip/shape={shape},lmode={lmode}', harness='roundtrip', fixed=dict(shape=shape, lmode=lmode),
                            budget_s=300 if tier == 'quick' else 1200))
    return out


BOUNDS = {t: dict(class_shapes='Base; Mid(Base); Leaf(Mid(Base)) with nested Savable (depth 1 or 2), SavableFuture and bound method; Leaf2(Base) re-declaring a base member; Empty',
                  member_values='symbolic int, symbolic str (len <= 2), list with nested dict/list of them, tuple',
                  futures=FUT_STATES, loaders='default / global custom / per-save custom with alias identifiers (loader named in the saved state) / custom on save and load; the loader-less load context reused for a default-saved state before / after',
                  unknown_identifiers=4) for t in ('quick', 'thorough')}
OUTSIDE = ['inheritance deeper than 3', 'members that are methods of other objects (rejected by save_members by design)', 'pickle/YAML transport of the saved state (C07)',
           'custom loaders without a no-argument constructor']
RULE = 'paths over (class shape, future state, nesting depth, loader mode, member values); non-trivial when the object was saved, loaded, compared member by member and saved again'
SOLVER_ROLE = 'data role for member values (equality after deepcopy decided symbolically); selector role for shape/loader mode/future state'
EXPLANATION = 'Savable.save / Savable.load round trip incl. loader resolution, rebinding of methods, nested savables, futures, copy semantics and the fixed point save(load(s)) == s'
ASSUMPTIONS = ['the custom loader is a DefaultObjectLoader subclass that maps the test classes to alias identifiers and falls back to the default resolution']
REQUIRED_WITNESSES = ['load_context_reused', 'custom_loader_resolved_class', 'future_pending', 'future_result', 'future_exception', 'future_cancelled', 'nested_depth2', 'unknown_class_valueerror']
LEVEL_TEXT = ('bounded exhaustive symbolic exploration over a family of Savable class shapes x future states x loader modes with symbolic member values: members restored, copied, rebound, '
              'recreated; right loader consulted; save(load(s)) == s; unknown class -> ValueError')
