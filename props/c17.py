"""C17 - launcher tasks do what they say or are rejected."""
import shutil
import tempfile

import kiwipy

import vfw  # noqa: F401
import plumpy
from plumpy import communications, loaders, process_comms, process_states as ps
from plumpy.persistence import LoadSaveContext
from vfw.drive import cleanup, fresh_loop, pick
from vfw.engine import NOTES, Violation, assume

PROPERTY_ID = 'C17'
LEVEL = 'exploration'
S = ps.ProcessState
RUNS = []        # (class name, pid, step, inputs x) recorded by the launched processes
CREATE, LAUNCH, CONTINUE, UNKNOWN = range(4)
TNAMES = ['create', 'launch', 'continue', 'unknown']


class Boom(Exception):
    pass


class L1(plumpy.Process):
    @classmethod
    def define(cls, spec):
        super().define(spec)
        spec.input('x', valid_type=int, default=1)
        spec.output('r', required=False)

    def run(self):
        RUNS.append(('L1', self.pid, 'run', self.inputs.x))
        self.out('r', self.inputs.x)
        return ps.Continue(self.s1)

    def s1(self):
        RUNS.append(('L1', self.pid, 's1', self.inputs.x))
        return self.inputs.x


class L2(plumpy.Process):
    @classmethod
    def define(cls, spec):
        super().define(spec)
        spec.input('x', valid_type=int, default=1)

    async def run(self):
        import asyncio
        RUNS.append(('L2', self.pid, 'run', self.inputs.x))
        await asyncio.sleep(0)
        raise Boom('l2 fails')


class L3(plumpy.Process):
    """finishes, but a hook that runs after the FINISHED state was entered fails: the process ends EXCEPTED"""
    @classmethod
    def define(cls, spec):
        super().define(spec)
        spec.input('x', valid_type=int, default=1)
        spec.output('r', required=False)

    def run(self):
        RUNS.append(('L3', self.pid, 'run', self.inputs.x))
        self.out('r', self.inputs.x)
        return self.inputs.x

    def on_finished(self):
        super().on_finished()
        raise Boom('l3 hook fails')


CLASSES = [L1, L2, L3]


class RecLoader(loaders.DefaultObjectLoader):
    CALLS = []

    def load_object(self, identifier):
        RecLoader.CALLS.append(identifier)
        return super().load_object(identifier)


def settle(loop, fut=None):
    loop.run_all(2000)


def outcome_of(kfut):
    """kiwipy future (possibly resolving to futures) -> ('value', v) | ('error', exc)"""
    while True:
        if not kfut.done():
            return ('pending', None)
        if kfut.cancelled():
            return ('cancelled', None)
        e = kfut.exception()
        if e is not None:
            return ('error', e)
        r = kfut.result()
        if isinstance(r, kiwipy.Future):
            kfut = r
            continue
        return ('value', r)


def _harness(pers, custom, with_ctx, via_comm, tasks):
    """tasks: list of (type, persist, nowait, tag, cls, x)"""
    del RUNS[:]
    del RecLoader.CALLS[:]
    loop = fresh_loop()
    d = None
    persister = None
    if pers == 1:
        persister = plumpy.InMemoryPersister()
    elif pers == 2:
        d = tempfile.mkdtemp(prefix='vfw_c17_')
        persister = plumpy.PicklePersister(d)
    loader = RecLoader() if custom else None
    kwargs = dict(loop=loop, persister=persister, loader=loader)
    if with_ctx:
        kwargs['load_context'] = LoadSaveContext(loop=loop)
    launcher = plumpy.ProcessLauncher(**kwargs)
    comm = None
    if via_comm:
        comm = communications.LoopCommunicator(kiwipy.LocalCommunicator(), loop)
        comm.add_task_subscriber(launcher)
    created = {}      # pid -> (cls idx, x, tag or None) for processes created+persisted and not yet continued
    known_pids = []
    procs_before = set()
    try:
        for n, (tt, persist, nowait, tag, ci, x) in enumerate(tasks):
            facts = dict(step=n, task=TNAMES[tt], persist=persist, nowait=nowait, tag=tag, persister=['none', 'inmemory', 'pickle'][pers],
                         custom_loader=custom, via_communicator=via_comm, history=[TNAMES[t[0]] for t in tasks])
            cname = (loader or loaders.get_object_loader()).identify_object(CLASSES[ci])
            if tt == CREATE:
                body = process_comms.create_create_body(CLASSES[ci], init_kwargs={'inputs': {'x': x}}, persist=persist, loader=loader)
            elif tt == LAUNCH:
                body = process_comms.create_launch_body(CLASSES[ci], init_kwargs={'inputs': {'x': x}}, persist=persist, loader=loader, nowait=nowait)
            elif tt == CONTINUE:
                pid = known_pids[-1] if known_pids else 12345
                body = process_comms.create_continue_body(pid, tag=tag, nowait=nowait)
            else:
                body = {process_comms.TASK_KEY: 'no-such-task', process_comms.TASK_ARGS: {}}
            runs_before = len(RUNS)
            calls_before = len(RecLoader.CALLS)
            if via_comm:
                kf = comm.task_send(body)
                settle(loop)
                kind, val = outcome_of(kf)
            else:
                t = loop.create_task(launcher(None, body))
                settle(loop)
                if not t.done():
                    raise Violation('task_never_completed', **facts)
                kind, val = ('error', t.exception()) if t.exception() is not None else ('value', t.result())
            if kind in ('pending', 'cancelled'):
                raise Violation('task_never_completed', got=kind, **facts)
            new_runs = RUNS[runs_before:]
            rejected = kind == 'error' and isinstance(val, communications.TaskRejected)
            # ---- expectations
            must_reject = tt == UNKNOWN or (tt in (CREATE, LAUNCH) and persist and persister is None) or (tt == CONTINUE and persister is None)
            if must_reject:
                if not rejected:
                    raise Violation('task_not_rejected', got=kind, err=type(val).__name__ if kind == 'error' else None, **facts)
                if new_runs:
                    raise Violation('rejected_task_ran_something', **facts)
                NOTES.witness('rejected')
                continue
            if rejected:
                raise Violation('task_rejected_unexpectedly', **facts)
            if tt == CREATE:
                if kind != 'value':
                    raise Violation('create_failed', err=type(val).__name__, **facts)
                if new_runs:
                    raise Violation('created_process_was_run', **facts)
                pid = val
                known_pids.append(pid)
                has = persister is not None and any(c.pid == pid for c in persister.get_checkpoints())
                if persist != has and persister is not None:
                    raise Violation('create_persistence', persisted=has, **facts)
                if persist:
                    created[pid] = (ci, x)
                if custom and cname not in RecLoader.CALLS[calls_before:]:
                    raise Violation('configured_loader_not_used', **facts)
                NOTES.witness('create')
            elif tt == LAUNCH:
                ran = [r for r in new_runs if r[0] == CLASSES[ci].__name__]
                if not ran or ran[0][3] != x:
                    raise Violation('launched_process_did_not_run_with_inputs', **facts)
                pid = ran[0][1]
                if persist:
                    if not any(c.pid == pid for c in persister.get_checkpoints()):
                        raise Violation('launch_not_persisted', **facts)
                    b = persister.load_checkpoint(pid)
                    if b['_state']['!!meta']['class_name'].rsplit(':', 1)[-1] != 'Created':
                        raise Violation('launch_persisted_after_start', **facts)
                if nowait:
                    if kind != 'value' or val != pid:
                        raise Violation('nowait_reply_not_pid', **facts)
                elif ci == 0:
                    if kind != 'value' or val != {'r': x}:
                        raise Violation('reply_not_outputs', got=kind, **facts)
                else:
                    inner = val
                    if kind != 'error' or not (isinstance(inner, Boom) or 'Boom' in str(type(inner)) or 'fails' in str(inner)):
                        raise Violation('reply_not_error', got=kind, err=type(val).__name__, **facts)
                if custom and cname not in RecLoader.CALLS[calls_before:]:
                    raise Violation('configured_loader_not_used', **facts)
                NOTES.witness('launch')
            elif tt == CONTINUE:
                pid = known_pids[-1] if known_pids else 12345
                if pid not in created or tag is not None:
                    # nothing persisted under (pid, tag): the task must fail, not run anything
                    if kind != 'error':
                        raise Violation('continue_of_missing_checkpoint_succeeded', **facts)
                    if new_runs:
                        raise Violation('continue_of_missing_checkpoint_ran_something', **facts)
                    NOTES.witness('continue_missing')
                    continue
                ci0, x0 = created[pid]   # the checkpoint stays in the persister: a later continue of the same id is just as valid
                ran = [r for r in new_runs if r[1] == pid]
                if [r[2] for r in ran][:1] != ['run'] or ran[0][3] != x0 or ran[0][0] != CLASSES[ci0].__name__:
                    raise Violation('continue_did_not_resume_checkpoint', ran=[r[2] for r in ran], **facts)
                if nowait:
                    if kind != 'value' or val != pid:
                        raise Violation('nowait_reply_not_pid', **facts)
                elif ci0 == 0:
                    if kind != 'value' or val != {'r': x0}:
                        raise Violation('reply_not_outputs', got=kind, **facts)
                elif kind != 'error':
                    raise Violation('reply_not_error', got=kind, **facts)
                if ci0 == 2:
                    NOTES.witness('excepted_after_finished_entry')
                if custom and not any(c.endswith(':' + CLASSES[ci0].__name__) for c in RecLoader.CALLS[calls_before:]):
                    raise Violation('configured_loader_not_used', on='continue', **facts)
                NOTES.witness('continue')
        NOTES.nontrivial = True
        if custom:
            NOTES.witness('custom_loader')
        if via_comm:
            NOTES.witness('via_communicator')
        NOTES.info = dict(history=[TNAMES[t[0]] for t in tasks], persister=pers, custom=custom, via_comm=via_comm)
    finally:
        loop.run_all(2000)
        if d:
            shutil.rmtree(d, ignore_errors=True)


def hist2(pers: int, custom: bool, with_ctx: bool, via_comm: bool, t0: int, p0: bool, n0: bool, c0: int, t1: int, p1: bool, n1: bool,
          g1: bool, c1: int, x: int):
    pe = pick(pers, 3)
    tasks = [(pick(t0, 4), p0, n0, None, pick(c0, 3), x if pe != 2 else 7),
             (pick(t1, 4), p1, n1, 't' if g1 else None, pick(c1, 3), x if pe != 2 else 7)]
    _harness(pe, custom, with_ctx, via_comm, tasks)


def hist3(pers: int, custom: bool, with_ctx: bool, via_comm: bool, t0: int, p0: bool, n0: bool, c0: int, t1: int, p1: bool, n1: bool,
          g1: bool, c1: int, t2: int, p2: bool, n2: bool, g2: bool, c2: int, x: int):
    pe = pick(pers, 3)
    xv = x if pe != 2 else 7
    tasks = [(pick(t0, 4), p0, n0, None, pick(c0, 3), xv), (pick(t1, 4), p1, n1, 't' if g1 else None, pick(c1, 3), xv),
             (pick(t2, 4), p2, n2, 't' if g2 else None, pick(c2, 3), xv)]
    _harness(pe, custom, with_ctx, via_comm, tasks)


HARNESSES = {'hist2': hist2, 'hist3': hist3}


def shards(tier):
    out = []
    for pers in range(3):
        for t0 in range(4):
            for via in (False, True):
                if tier == 'quick':
                    for custom in (False, True):
                        out.append(dict(name=f'hist2/pers={pers},t0={t0},via={via},custom={custom}', harness='hist2',
                                        fixed=dict(pers=pers, t0=t0, via_comm=via, custom=custom), budget_s=400))
                else:
                    out.append(dict(name=f'hist2/pers={pers},t0={t0},via={via}', harness='hist2', fixed=dict(pers=pers, t0=t0, via_comm=via), budget_s=900))
                    if not via:
                        for t1 in range(4):
                            # third task: a continue (the task kind that depends on the history), of the finishing class
                            out.append(dict(name=f'hist3/pers={pers},t0={t0},t1={t1}', harness='hist3',
                                            fixed=dict(pers=pers, t0=t0, t1=t1, via_comm=False, t2=CONTINUE, p2=False, c2=0, c1=0), budget_s=3000))
    return out


BOUNDS = {
    'quick': dict(history='2 tasks over create/launch/continue/unknown with symbolic persist, nowait, tag, class (finishing / failing step / failing on_finished hook after the FINISHED entry), input x symbolic int (concrete with the pickle persister)',
                  persister='none / in-memory / pickle', loader='default or recording custom loader, with and without an explicit load_context', transport='awaiting ProcessLauncher.__call__ directly and task_send through LoopCommunicator(LocalCommunicator)'),
    'thorough': dict(history='2 tasks as quick; 3 tasks where the third is a continue task (direct transport)', persister='as quick', loader='as quick', transport='as quick'),
}
OUTSIDE = ['RabbitMQ', 'launched processes that wait for external input', 'histories longer than the bound', 'no_reply tasks']
RULE = 'paths over (persister, loader, transport, task history with flags); non-trivial when the whole history was checked against the statement'
SOLVER_ROLE = 'selector role for histories/flags (exhaustive), data role for the constructor input (reply == outputs compared symbolically)'
EXPLANATION = 'per task: reply, what ran, persister content, rejection, which loader resolved the class'
ASSUMPTIONS = ['continue targets the most recently created process id (or an unknown id if none exists)']
REQUIRED_WITNESSES = ['rejected', 'create', 'launch', 'continue', 'continue_missing', 'custom_loader', 'via_communicator', 'excepted_after_finished_entry']
LEVEL_TEXT = 'bounded exhaustive symbolic exploration of task histories against either persister, with/without custom loader, directly and through the loop-wrapped local communicator'
