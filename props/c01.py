"""C01 - state changes follow the lifecycle graph; terminal states are final."""
import ast
import os
import time

import vfw
from plumpy import process_states as ps
from vfw import programs, sched
from vfw.drive import pick
from vfw.engine import NOTES, Violation, assume
from vfw.sched import GAP, Req

PROPERTY_ID = 'C01'
LEVEL = 'exploration'
S = ps.ProcessState
LIVE = (S.CREATED, S.RUNNING, S.WAITING)
DOCUMENTED = {
    S.CREATED: {S.RUNNING, S.KILLED, S.EXCEPTED},
    S.RUNNING: {S.RUNNING, S.WAITING, S.FINISHED, S.KILLED, S.EXCEPTED},
    S.WAITING: {S.RUNNING, S.WAITING, S.FINISHED, S.KILLED, S.EXCEPTED},
    S.FINISHED: set(), S.EXCEPTED: set(), S.KILLED: set(),
}
NACT = 8


def oracle(run: sched.Run) -> None:
    p = run.proc
    if run.samples[0] != S.CREATED:
        raise Violation('initial_state', state=str(run.samples[0]))
    prev = S.CREATED
    for frm, to, tick in run.entered:
        if frm != prev:
            raise Violation('unobserved_transition', expected_from=str(prev), got_from=str(frm))
        if to not in DOCUMENTED[frm]:
            raise Violation('illegal_transition', frm=str(frm), to=str(to))
        prev = to
    # terminal finality, from the sampled labels (ENTERED callbacks are dropped once the process is closed)
    term = None
    for st in run.samples:
        if term is not None and st != term:
            late = [sched.ACT_NAMES[r.act] for r in run.reqs if r.applied and r.pre.get('terminated')]
            raise Violation('terminal_state_changed', was=str(term), now=str(st), late_requests=late)
        if st not in LIVE:
            term = st
    if term is not None and prev != term:
        raise Violation('last_entered_differs_from_terminal', entered=str(prev), terminal=str(term))
    if p.has_terminated() != (p.state not in LIVE):
        raise Violation('has_terminated_inconsistent')


def _harness(prog, specs):
    """specs: list of (pos, act, val, txt) or (where, pos, act, val, txt) with concrete act (and placement)"""
    reqs = [Req(GAP, *sp) if len(sp) == 4 else Req(*sp) for sp in specs]
    run = sched.Run(programs.program(prog), reqs)
    try:
        run.go()
        # extra stepping after termination must not change anything either
        if run.proc.has_terminated():
            # fixed post-termination probe: every control call once more, draining the loop after each
            for call in (run.proc.play, run.proc.pause, run.proc.kill, run.proc.play):
                try:
                    call()
                except Exception:  # noqa: BLE001  (C01 is about the state only)
                    pass
                run.loop.run_all(100)
                run.sample()
            t = run.loop.create_task(run.proc.step_until_terminated())
            run.loop.run_all(50)
            run.sample()
            if not t.done():
                raise Violation('stepping_after_termination_hangs')
        oracle(run)
        applied_live = [r for r in reqs if r.applied and not r.pre['terminated']]
        applied_late = [r for r in reqs if r.applied and r.pre['terminated']]
        if applied_live or applied_late:
            NOTES.nontrivial = True
        if any(r.pre['stepping'] for r in applied_live):
            NOTES.witness('request_while_stepping')
        if applied_late:
            NOTES.witness('probe_after_terminal')
        if any(r.act in (sched.FAIL, sched.CS_RAISE) for r in applied_late):
            NOTES.witness('late_failure_after_terminal')
        if any(r.act == sched.KILL for r in applied_live):
            NOTES.witness('kill_applied_live')
        if any(r.act == sched.PAUSE and r.pre['state'] == S.WAITING for r in applied_live):
            NOTES.witness('pause_on_waiting')
        NOTES.info = dict(prog=prog, schedule=sched.describe(reqs), final=str(run.proc.state),
                          transitions=[f'{f.value}->{t.value}' for f, t, _ in run.entered])
    finally:
        run.finish()


def sched1(prog: int, p0: int, a0: int, v0: int, t0: str):
    assume(0 <= p0 <= NPOS)
    assume(len(t0) <= 2)
    _harness(pick(prog, programs.N_PROGRAMS), [(p0, pick(a0, NACT), v0, t0)])


def sched1w(prog: int, w0: int, p0: int, a0: int, v0: int, t0: str):
    """one request issued from inside a listener notification or an ENTERING_STATE/EXITING_STATE callback, i.e. in the
    middle of a transition (occurrence 0..2 of that event)"""
    assume(len(t0) <= 2)
    w = pick(w0, NWHERE)
    assume(w != GAP and 0 <= p0 <= 2)
    _harness(pick(prog, programs.N_PROGRAMS), [(w, p0, pick(a0, NACT), v0, t0)])
    NOTES.witness('request_mid_transition')


def sched2(prog: int, p0: int, a0: int, v0: int, t0: str, p1: int, a1: int, v1: int, t1: str):
    assume(0 <= p0 <= p1 <= NPOS)
    assume(len(t0) <= 2 and len(t1) <= 2)
    _harness(pick(prog, programs.N_PROGRAMS), [(p0, pick(a0, NACT), v0, t0), (p1, pick(a1, NACT), v1, t1)])


def sched3(prog: int, p0: int, a0: int, v0: int, t0: str, p1: int, a1: int, v1: int, t1: str, p2: int, a2: int,
           v2: int, t2: str):
    assume(0 <= p0 <= p1 <= p2 <= NPOS)
    assume(len(t0) <= 1 and len(t1) <= 1 and len(t2) <= 1)
    _harness(pick(prog, programs.N_PROGRAMS),
             [(p0, pick(a0, NACT), v0, t0), (p1, pick(a1, NACT), v1, t1), (p2, pick(a2, NACT), v2, t2)])


NPOS = 12
K3_PROGS = (1, 2, 3, 9)   # K = 3 in the thorough tier: the programs with await points / waits
NWHERE = 7
HARNESSES = {'sched1': sched1, 'sched1w': sched1w, 'sched2': sched2, 'sched3': sched3}


def shards(tier):
    out = []
    for prog in range(programs.N_PROGRAMS):
        out.append(dict(name=f'sched1w/prog={prog}', harness='sched1w', fixed=dict(prog=prog), budget_s=300 if tier == 'quick' else 900))
        if tier == 'quick':
            for a0 in range(NACT):
                out.append(dict(name=f'sched2/prog={prog},a0={a0}', harness='sched2', fixed=dict(prog=prog, a0=a0), budget_s=200))
        else:
            for a0 in range(NACT):
                out.append(dict(name=f'sched2/prog={prog},a0={a0}', harness='sched2', fixed=dict(prog=prog, a0=a0), budget_s=600))
                if prog in K3_PROGS:
                    for a1 in range(NACT):
                        out.append(dict(name=f'sched3/prog={prog},a0={a0},a1={a1}', harness='sched3',
                                        fixed=dict(prog=prog, a0=a0, a1=a1), budget_s=1500))
    return out


# ---------------------------------------------------------------------------------------------
# bound-free table lemma: ALLOWED / LABEL extracted from the source AST, encoded over a z3 enumeration
# sort; z3 proves allowed(s,t) <=> documented(s,t) and terminal(s) <=> no successor.
def extra_obligations(tier):
    import z3

    t0 = time.time()
    path = os.path.join(vfw.PLUMPY_SRC, 'plumpy', 'process_states.py')
    tree = ast.parse(open(path).read())
    table = {}
    for node in tree.body:
        if isinstance(node, ast.ClassDef):
            label, allowed = None, None
            for st in node.body:
                if isinstance(st, ast.Assign) and len(st.targets) == 1 and isinstance(st.targets[0], ast.Name):
                    name = st.targets[0].id
                    if name == 'LABEL' and isinstance(st.value, ast.Attribute):
                        label = st.value.attr
                    if name == 'ALLOWED' and isinstance(st.value, ast.Set):
                        allowed = sorted(e.attr for e in st.value.elts if isinstance(e, ast.Attribute))
            if label is not None:
                table[label] = allowed or []
    names = ['CREATED', 'RUNNING', 'WAITING', 'FINISHED', 'EXCEPTED', 'KILLED']
    if sorted(table) != sorted(names):
        return dict(ok=False, violation=dict(kind='state_table_shape', facts=dict(found=sorted(table)), harness='table'))
    St, consts = z3.EnumSort('St', names)
    c = dict(zip(names, consts))
    s, t = z3.Consts('s t', St)
    allowed = z3.Or([z3.And(s == c[a], t == c[b]) for a in names for b in table[a]] or [z3.BoolVal(False)])
    doc = z3.Or([z3.And(s == c[a.name], t == c[b.name]) for a in DOCUMENTED for b in DOCUMENTED[a]])
    queries = 0
    solver = z3.Solver()
    solver.add(allowed != doc)
    queries += 1
    r = solver.check()
    if str(r) != 'unsat':
        m = solver.model() if str(r) == 'sat' else None
        return dict(ok=False, violation=dict(kind='allowed_table_differs_from_documented_graph', harness='table',
                                             facts=dict(frm=str(m[s]) if m else '?', to=str(m[t]) if m else '?', solver=str(r))))
    # terminal(s) <=> no successor, with terminal taken from the real classes' is_terminal()
    term_real = {st.LABEL.name: st.is_terminal() for st in (ps.Created, ps.Running, ps.Waiting, ps.Finished, ps.Excepted, ps.Killed)}
    solver = z3.Solver()
    term = z3.Or([s == c[n] for n in names if term_real[n]] or [z3.BoolVal(False)])
    has_succ = z3.Exists([t], allowed)
    solver.add(term == has_succ)
    queries += 1
    r = solver.check()
    if str(r) != 'unsat':
        return dict(ok=False, violation=dict(kind='terminal_flag_inconsistent_with_allowed', harness='table', facts=dict(solver=str(r))))
    return dict(ok=True, obligations=2, discharged=2, solver='z3', queries=queries, table=table, wall_s=round(time.time() - t0, 3))


BOUNDS = {
    'quick': dict(requests='K = 2 between loop callbacks; K = 1 issued from inside a listener notification (running/waiting/paused/played) or an ENTERING_STATE/EXITING_STATE callback (occurrence 0..2)', actions=sched.ACT_NAMES, positions=f'every gap between loop callbacks/idle ticks 0..{NPOS} + after termination',
                  programs='P0..P10 (sync, async with 1-2 await points, waits, sync and async failure, Kill command, unsuccessful result, refused FINISHED entry, 2 workchains)',
                  data='resume values int (unbounded), kill/pause texts str len <= 2'),
    'thorough': dict(requests='K = 2 for all programs, K = 3 for P1 P2 P3 P9 (between loop callbacks); K = 1 mid-transition (listener notification / state-event callback)', actions=sched.ACT_NAMES, positions=f'0..{NPOS} + after termination', programs='P0..P10',
                     data='int unbounded, str len <= 1'),
}
OUTSIDE = ['more than K requests', 'hooks that raise (that is C03)', 'requests issued from listener callbacks (covered by C04/C02 harnesses)',
           'real threads / stock asyncio loop scheduling other tasks between callbacks', 'programs outside the family']
RULE = ('paths over (program, K requests: position x action x value x text); a path is non-trivial when at least one request '
        'was actually applied (to a live or to a terminated process); distinct = distinct path condition')
SOLVER_ROLE = ('selector role: the solver drives the exhaustive, pruned case split over positions/actions (positions after the end '
               'collapse into one path) and certifies exhaustion; data role for resume values/texts; plus a z3 table lemma over the ALLOWED sets')
EXPLANATION = 'lifecycle-graph legality of every ENTERED transition and finality of terminal states under all bounded schedules'
ASSUMPTIONS = ['environment policy at idle ticks: play a paused process, resume a waiting one with a default value / complete its awaited future']
REQUIRED_WITNESSES = ['request_while_stepping', 'probe_after_terminal', 'late_failure_after_terminal', 'kill_applied_live', 'pause_on_waiting', 'request_mid_transition']
LEVEL_TEXT = ('bounded exhaustive symbolic exploration of all placements of K control requests / late callbacks over 9 programs; '
              'every observed transition must be an edge of the documented graph and terminal labels never change; plus a z3 lemma that the ALLOWED tables equal the documented graph')
