"""C09 - a WorkChain executes its outline as the structured program it denotes."""
import vfw  # noqa: F401
import plumpy
from plumpy import process_states as ps
from vfw import outlines
from vfw.drive import cleanup, fresh_loop, pick
from vfw.engine import NOTES, Violation, assume

PROPERTY_ID = 'C09'
LEVEL = 'exploration'
S = ps.ProcessState

_ALL = {}
_NSMALL = [0]


def family(tier):
    if tier not in _ALL:
        if tier == 'quick':
            fam = outlines.enumerate_outlines(4, 2)
        else:
            small = outlines.enumerate_outlines(4, 2)
            fam = small + [o for o in outlines.enumerate_outlines(5, 2) if outlines.size(o) == 5][::8]
            _NSMALL[0] = len(outlines.HANDPICKED) + len([o for o in small if outlines.count(o)[0] + outlines.count(o)[1] > 0])
        fam = list(outlines.HANDPICKED) + [o for o in fam if outlines.count(o)[0] + outlines.count(o)[1] > 0]
        _ALL[tier] = fam
    return _ALL[tier]


NB, NR = 6, 5  # predicate / step value streams (quick tier: only the first 3 step values are symbolic, the rest 0)


def run_outline(desc, name, bools, rets):
    """execute the real WorkChain for the outline with the given value streams; returns (trace, state, result, proc)"""
    cls = outlines.make_class(name, desc)
    pc, sc = [0], [0]

    def pred(_self, _i):
        k = pc[0]
        pc[0] += 1
        return bools[k] if k < len(bools) else False

    def step(_self, _i):
        k = sc[0]
        sc[0] += 1
        if k >= len(rets):
            return None
        r = rets[k]
        if r == 0:
            return None
        if r == 1:
            return plumpy.ToContext()
        if r == 2 or r == 3:
            # registers an (already completed) awaitable through to_context(); code 3 additionally returns a value,
            # which must stop the chain like any other value that is neither None nor a context assignment
            f = plumpy.Future()
            f.set_result(k)
            _self.to_context(**{f'aw{k}': f})
            return None if r == 2 else 33
        return r

    outlines.ENV['pred'], outlines.ENV['step'] = pred, step
    del outlines.TRACE[:]
    loop = fresh_loop()
    proc = cls(loop=loop)
    try:
        loop.create_task(proc.step_until_terminated())
        loop.run_all(4000)
        return list(outlines.TRACE), proc.state, (proc.result() if proc.state == S.FINISHED else proc.exception()), pc[0], sc[0]
    finally:
        cleanup(loop, [proc])


def reference(desc, bools, rets):
    pc, sc = [0], [0]

    def pred(_i):
        k = pc[0]
        pc[0] += 1
        return bools[k] if k < len(bools) else False

    def step(_i):
        k = sc[0]
        sc[0] += 1
        if k >= len(rets):
            return None
        r = rets[k]
        if r == 0 or r == 2:
            return None
        if r == 1:
            return {}
        if r == 3:
            return 33
        return r

    trace, last, ended_by_pred = outlines.interpret(desc, step, pred)
    return trace, (None if ended_by_pred else last)


def check(desc, name, bools, rets):
    etrace, eresult = reference(desc, bools, rets)
    trace, state, result, npred, nstep = run_outline(desc, name, bools, rets)
    if state != S.FINISHED:
        raise Violation('not_finished', state=str(state), err=repr(result)[:120], outline=repr(desc)[:200])
    if trace != etrace:
        raise Violation('call_order_differs', got=trace[:30], expected=etrace[:30], outline=repr(desc)[:200])
    if result != eresult:
        raise Violation('result_differs', outline=repr(desc)[:200], expected_kind=type(eresult).__name__, got_kind=type(result).__name__)
    if npred + nstep > 0:
        NOTES.nontrivial = True
    if npred >= NB:
        NOTES.witness('predicate_stream_exhausted_loop_bound')
    if any(t[0] == 'p' for t in trace) and any(t[0] == 's' for t in trace):
        NOTES.witness('steps_and_predicates')
    if isinstance(eresult, int) and not isinstance(eresult, bool):
        NOTES.witness('stopped_with_value')
    if any(x == 3 for x in rets[:nstep]):
        NOTES.witness('value_returned_after_to_context')
    NOTES.info = dict(outline=repr(desc)[:160], trace=[f'{a}{b}' for a, b in trace][:24])


GROUP = {'quick': 8, 'thorough': 8}
TIERS = ['quick', 'thorough']


def outline(tq: int, lo: int, off: int, b0: bool, b1: bool, b2: bool, b3: bool, b4: bool, b5: bool, r0: int, r1: int, r2: int,
            r3: int, r4: int):
    tier = TIERS[tq]
    fam = family(tier)
    if tier == 'quick' or lo >= _NSMALL[0]:
        assume(r3 == 0 and r4 == 0)
    k = pick(off, GROUP[tier])
    assume(lo + k < len(fam))
    idx = lo + k
    check(fam[idx], f'O_{tier}_{idx}', [b0, b1, b2, b3, b4, b5], [r0, r1, r2, r3, r4])


HARNESSES = {'outline': outline}


def shards(tier):
    fam = family(tier)
    g = GROUP[tier]
    out = []
    for lo in range(0, len(fam), g):
        out.append(dict(name=f'outline/{tier}/{lo}-{min(lo + g, len(fam)) - 1}', harness='outline', fixed=dict(tq=TIERS.index(tier), lo=lo),
                        budget_s=600 if tier == 'quick' else 2400))
    return out


BOUNDS = {
    'quick': dict(outlines='all outlines with <= 4 instructions and nesting depth <= 2 (plus 6 hand-picked deeper ones); return_ codes None/7',
                  predicate_values=f'{NB} symbolic bools consumed in call order, False afterwards (loop-unrolling bound)',
                  step_values=f'3 symbolic ints (thorough: {NR}) consumed in call order: 0 -> None, 1 -> empty ToContext, 2 -> to_context(done future) and None, 3 -> to_context(done future) and 33 (stops), other -> that int (stops the chain); None afterwards'),
    'thorough': dict(outlines='all outlines with <= 4 instructions (5 symbolic step values), plus every 8th outline with exactly 5 instructions (3 symbolic step values), depth <= 2',
                     predicate_values=f'{NB} symbolic bools', step_values=f'{NR} symbolic ints'),
}
OUTSIDE = ['outlines beyond the size/depth bound', 'more predicate/step evaluations than the value streams', 'steps that raise (C03) or await futures (C10)',
           'non-boolean predicate results']
RULE = 'paths over (outline, predicate truth values, step return values); non-trivial when at least one step or predicate was called; distinct = distinct path condition'
SOLVER_ROLE = 'data role: predicate truth values and step return codes are symbolic; the solver splits on every branch the real stepper code takes on them and certifies exhaustion; the reference interpreter runs on the same symbolic values in the same path'
EXPLANATION = 'differential check of the stepper classes against a 40-line structured-program interpreter written from the statement'
ASSUMPTIONS = ['predicates return real bools; steps return None, an empty context assignment or an int']
REQUIRED_WITNESSES = ['predicate_stream_exhausted_loop_bound', 'steps_and_predicates', 'stopped_with_value', 'value_returned_after_to_context']
LEVEL_TEXT = ('bounded exhaustive symbolic exploration: for every outline of the bounded family and all predicate/return value sequences the ordered trace of '
              'step and predicate calls and the result equal those of an independent structured-program interpreter')
