"""C16 - remote control equals direct control; each transition announced once, in order."""
import kiwipy
from aio_pika.exceptions import ChannelInvalidStateError, ConnectionClosed

import vfw  # noqa: F401
import plumpy
from plumpy import communications, futures, process_states as ps
from plumpy.process_comms import MESSAGE_TEXT_KEY, RemoteProcessThreadController
from vfw import programs, sched
from vfw.drive import cleanup, pick
from vfw.engine import NOTES, Violation, assume
from vfw.sched import GAP, Req

PROPERTY_ID = 'C16'
LEVEL = 'exploration'
S = ps.ProcessState
PID = 'p77'
PROGS = [programs.P0, programs.P1, programs.P2, programs.P3, programs.P10]
M_PAUSE, M_PLAY, M_KILL, M_STATUS, B_PAUSE, B_PLAY, B_KILL = range(7)
MNAMES = ['rpc pause', 'rpc play', 'rpc kill', 'rpc status', 'broadcast pause_all', 'broadcast play_all', 'broadcast kill_all']
HANDLER = {M_PAUSE: 'pause', M_PLAY: 'play', M_KILL: 'kill', B_PAUSE: 'pause', B_PLAY: 'play', B_KILL: 'kill'}
NPOS = 10
FAIL_KINDS = [lambda: ConnectionClosed(), lambda: ChannelInvalidStateError(), lambda: kiwipy.TimeoutError()]


def progress(p):
    return (len(programs.TRACE), p.state, p.paused)


def outcome(p):
    if p.state == S.FINISHED:
        return ('finished', p.result(), p.successful())
    if p.state == S.KILLED:
        return ('killed', p.killed_msg()[MESSAGE_TEXT_KEY])
    if p.state == S.EXCEPTED:
        return ('excepted', type(p.exception()).__name__)
    return ('live', p.state, p.paused)


def settle_value(x):
    """bool or (kiwipy/asyncio) future -> comparable outcome"""
    seen = 0
    while hasattr(x, 'done') and seen < 6:
        seen += 1
        if not x.done():
            return ('pending',)
        if x.cancelled():
            return ('cancelled',)
        e = x.exception()
        if e is not None:
            return ('error', type(e).__name__)
        x = x.result()
    return ('value', x)


class Msg(Req):
    def __init__(self, pos, kind, text):
        super().__init__(GAP, pos, sched.PAUSE, 0, text)
        self.kind = kind
        self.reply = None


def remote_run(prog, transport, specs, fail_at, fail_kind):
    inv = []       # handler invocations on the controlled process
    seen = []      # state_changed broadcasts seen by an independent subscriber
    sent = [0]
    holder = {}

    def make(loop):
        base = kiwipy.LocalCommunicator()
        comm = communications.LoopCommunicator(base, loop) if transport else base
        orig_send = comm.broadcast_send

        def broadcast_send(body, sender=None, subject=None, correlation_id=None):
            if subject is not None and str(subject).startswith('state_changed'):
                k = sent[0]
                sent[0] += 1
                if k == fail_at:
                    raise FAIL_KINDS[fail_kind]()
            return orig_send(body, sender, subject, correlation_id)

        comm.broadcast_send = broadcast_send

        def recorder(_comm, body, sender, subject, correlation_id):
            if subject is not None and str(subject).startswith('state_changed'):
                seen.append((subject, sender))

        base.add_broadcast_subscriber(recorder, identifier='independent-subscriber')
        p = PROGS[prog](pid=PID, loop=loop, communicator=comm)
        for name in ('pause', 'play', 'kill'):
            orig = getattr(p, name)

            def wrapper(*a, _orig=orig, _name=name, **k):
                rec = dict(name=_name, args=a, kwargs=k, progress=progress(p), stepping=bool(getattr(p, '_stepping', False)),
                           terminated=p.has_terminated(), tick=holder['run'].tick)
                inv.append(rec)
                rec['ret'] = _orig(*a, **k)
                return rec['ret']

            setattr(p, name, wrapper)
        holder['comm'], holder['base'] = comm, base
        return p

    reqs = [Msg(pos, kind, text) for (pos, kind, text) in specs]
    run = sched.Run(None, reqs, make=make, auto_play=False, attach_listener=True)
    holder['run'] = run
    ctrl = RemoteProcessThreadController(holder['comm'])

    def apply(r):
        p = run.proc
        r.applied = True
        r.tick = run.tick
        r.pre = dict(state=p.state, paused=p.paused, terminated=p.has_terminated(), stepping=bool(getattr(p, '_stepping', False)),
                     idle=not run.loop.pending(), trace_len=len(programs.TRACE), n_entered=len(run.entered), pausing=False, killing=False,
                     waiting_future_done=False, in_listener=False)
        run.events.append(('req', r, len(programs.TRACE)))
        try:
            if r.kind == M_PAUSE:
                r.reply = ctrl.pause_process(PID, r.txt)
            elif r.kind == M_PLAY:
                r.reply = ctrl.play_process(PID)
            elif r.kind == M_KILL:
                r.reply = ctrl.kill_process(PID, r.txt)
            elif r.kind == M_STATUS:
                r.reply = ctrl.get_status(PID)
            elif r.kind == B_PAUSE:
                ctrl.pause_all(r.txt)
            elif r.kind == B_PLAY:
                ctrl.play_all()
            elif r.kind == B_KILL:
                ctrl.kill_all(r.txt)
        except Exception as e:  # noqa: BLE001
            r.exc = e
        r.post_state = p.state
        r.post_paused = p.paused
        run.sample()

    run.apply = apply
    run.go()
    return run, reqs, inv, seen


def twin_run(prog, inv):
    """the same program without communicator; every recorded handler invocation is replayed as a direct call at the
    same progress point"""
    pending = list(inv)
    rets = []
    run = sched.Run(PROGS[prog], [], auto_play=False, make=lambda loop: PROGS[prog](pid=PID, loop=loop))

    def pre_tick():
        while pending and progress(run.proc) == pending[0]['progress'] and pending[0]['terminated'] == run.proc.has_terminated():
            rec = pending.pop(0)
            rets.append(getattr(run.proc, rec['name'])(*rec['args'], **rec['kwargs']))

    run.pre_tick = pre_tick
    run.go()
    pre_tick()
    return run, rets, pending


def _harness(prog, transport, specs, fail_at, fail_kind):
    run, reqs, inv, seen = remote_run(prog, transport, specs, fail_at, fail_kind)
    twin = None
    try:
        p = run.proc
        facts = dict(program=PROGS[prog].__name__, transport=['LocalCommunicator', 'LoopCommunicator(LocalCommunicator)'][transport],
                     messages=[MNAMES[r.kind] for r in reqs], broadcast_failure=fail_at if fail_at >= 0 else None)
        if run.loop.errors:
            raise Violation('exception_in_loop_callback', first=run.loop.errors[0]['message'][:80], exc=type(run.loop.errors[0]['exception']).__name__, **facts)
        # --- A: every control message reached the corresponding method exactly once, with its text, and the reply is its result
        k = 0
        for r in reqs:
            if not r.applied or r.kind == M_STATUS:
                continue
            if r.exc is not None:
                if r.pre['terminated'] and isinstance(r.exc, kiwipy.UnroutableError):
                    NOTES.witness('terminated_process_unroutable')
                    continue
                raise Violation('sending_raised', err=type(r.exc).__name__, terminated=r.pre['terminated'], message=MNAMES[r.kind], **facts)
            if r.pre['terminated'] and r.kind in (B_PAUSE, B_PLAY, B_KILL):
                continue  # broadcast after termination: must not be received (checked below through the invocation count)
            if k >= len(inv) or inv[k]['name'] != HANDLER[r.kind]:
                raise Violation('message_not_handled', message=MNAMES[r.kind], handled=[i['name'] for i in inv], **facts)
            rec = inv[k]
            k += 1
            if r.kind in (M_PAUSE, M_KILL, B_PAUSE, B_KILL):
                if rec['kwargs'].get('msg_text') != r.txt or rec['args']:
                    raise Violation('message_text_not_passed', message=MNAMES[r.kind], **facts)
            if r.kind in (M_PAUSE, M_PLAY, M_KILL):
                got, want = settle_value(r.reply), settle_value(rec['ret'])
                if got != want:
                    raise Violation('reply_differs_from_direct_result', message=MNAMES[r.kind], got=got[0], want=want[0], **facts)
                NOTES.witness('rpc_reply_checked')
        if k != len(inv):
            raise Violation('spurious_handler_invocations', handled=[i['name'] for i in inv], **facts)
        for r in reqs:
            if r.applied and r.kind == M_STATUS and r.exc is None:
                st = settle_value(r.reply)
                if st[0] != 'value' or not isinstance(st[1], dict) or not {'ctime', 'paused', 'process_string', 'state'} <= set(st[1]):
                    raise Violation('status_reply', got=st[0], **facts)
                if not transport and (st[1]['paused'] != r.pre['paused'] or st[1]['state'] != str(r.pre['state'])):
                    raise Violation('status_reply_content', **facts)
                NOTES.witness('status')
        # --- C: every completed transition announced exactly once, in order, by the process id
        want = [(f'state_changed.{f.value}.{t.value}', PID) for (f, t, _tick) in run.entered]
        want = [('state_changed.None.created', PID)] + want if False else want
        got = [s for s in seen if s[0] != 'state_changed.None.created']
        if fail_at >= 0:
            # the failing one is never delivered; it is counted over all state changes including the creation broadcast
            idx = fail_at - 1
            if 0 <= idx < len(want):
                want = want[:idx] + want[idx + 1:]
                NOTES.witness('broadcast_failure_tolerated')
        if got != want:
            raise Violation('announcements_differ', got=[g[0] for g in got], want=[w[0] for w in want], senders_ok=all(g[1] == PID for g in got), **facts)
        # --- D: a terminated process receives nothing
        if p.has_terminated():
            n_before = len(inv)
            try:
                holder_comm = p._communicator
                RemoteProcessThreadController(holder_comm).pause_all('late')
                run.loop.run_all(200)
            except Exception as e:  # noqa: BLE001
                raise Violation('late_broadcast_raised', err=type(e).__name__, **facts)
            if len(inv) != n_before:
                raise Violation('terminated_process_received_broadcast', **facts)
            try:
                holder_comm.rpc_send(PID, plumpy.MessageBuilder.play())
                raise Violation('terminated_process_still_routable', **facts)
            except kiwipy.UnroutableError:
                pass
        # --- B: the twin receiving the equivalent direct calls behaves identically
        trace1 = [(t[0], t[1], t[2]) for t in programs.TRACE]
        out1 = outcome(p)
        quiescent = all((not i['stepping']) or i['progress'][1] == S.WAITING for i in inv)
        twin, rets, unmatched = twin_run(prog, inv)
        trace2 = [(t[0], t[1], t[2]) for t in programs.TRACE]
        if not unmatched:
            for rec, ret in zip(inv, rets):
                if settle_value(rec['ret']) != settle_value(ret):
                    raise Violation('direct_call_result_differs', call=rec['name'], quiescent=quiescent, **facts)
            if outcome(twin.proc) != out1 or trace1 != trace2:
                raise Violation('twin_diverged', remote=str(out1[0]), direct=str(outcome(twin.proc)[0]), quiescent=quiescent, **facts)
            NOTES.witness('twin_compared')
            if quiescent and inv:
                NOTES.witness('quiescent_delivery_twin')
        elif quiescent:
            raise Violation('twin_could_not_reach_delivery_point', **facts)
        if any(r.applied and not r.pre['terminated'] for r in reqs) or fail_at >= 0:
            NOTES.nontrivial = True
        if any(i['stepping'] and i['progress'][1] != S.WAITING for i in inv):
            NOTES.witness('in_step_delivery')
        if any(r.applied and r.kind >= B_PAUSE for r in reqs):
            NOTES.witness('broadcast_control')
        if transport:
            NOTES.witness('loop_communicator')
        NOTES.info = dict(facts, final=str(out1[0]), handled=[i['name'] for i in inv])
    finally:
        run.finish()
        if twin is not None:
            twin.finish()


def msgs1(prog: int, transport: bool, k0: int, p0: int, t0: str):
    assume(0 <= p0 <= NPOS and len(t0) <= 2)
    _harness(pick(prog, len(PROGS)), 1 if transport else 0, [(p0, pick(k0, 7), t0)], -1, 0)


def bfail(prog: int, transport: bool, with_msg: int, p0: int, fail_at: int, fail_kind: int):
    """one state-change broadcast fails with a tolerated exception; optionally one control message besides"""
    assume(0 <= fail_at <= 6)
    wm = pick(with_msg, 3)
    if wm == 0:
        assume(p0 == 0)
    else:
        assume(0 <= p0 <= 4)
    specs = [] if wm == 0 else [(p0, M_KILL if wm == 1 else M_PAUSE, 'x')]
    _harness(pick(prog, len(PROGS)), 1 if transport else 0, specs, fail_at, pick(fail_kind, 3))


def msgs2(npos: int, prog: int, transport: bool, k0: int, p0: int, t0: str, k1: int, p1: int, t1: str):
    assume(0 <= p0 <= p1 <= npos and len(t0) <= 2 and len(t1) <= 2)
    _harness(pick(prog, len(PROGS)), 1 if transport else 0, [(p0, pick(k0, 7), t0), (p1, pick(k1, 7), t1)], -1, 0)


def msgs3(prog: int, transport: bool, k0: int, p0: int, k1: int, p1: int, k2: int, p2: int):
    assume(0 <= p0 <= p1 <= p2 <= 5)
    _harness(pick(prog, len(PROGS)), 1 if transport else 0, [(p0, pick(k0, 7), 'a'), (p1, pick(k1, 7), 'b'), (p2, pick(k2, 7), 'c')], -1, 0)


HARNESSES = {'msgs1': msgs1, 'msgs2': msgs2, 'msgs3': msgs3, 'bfail': bfail}


def shards(tier):
    out = []
    for prog in range(len(PROGS)):
        for transport in (False, True):
            out.append(dict(name=f'msgs1/prog={prog},transport={transport}', harness='msgs1', fixed=dict(prog=prog, transport=transport), budget_s=400))
            out.append(dict(name=f'bfail/prog={prog},transport={transport}', harness='bfail', fixed=dict(prog=prog, transport=transport), budget_s=400))
            for k0 in range(7):
                if tier == 'quick':
                    if prog == 0:
                        continue
                    out.append(dict(name=f'msgs2/prog={prog},transport={transport},k0={k0}', harness='msgs2',
                                    fixed=dict(npos=5, prog=prog, transport=transport, k0=k0), budget_s=400))
                else:
                    if prog != 0:
                        out.append(dict(name=f'msgs2/prog={prog},transport={transport},k0={k0}', harness='msgs2',
                                        fixed=dict(npos=8, prog=prog, transport=transport, k0=k0), budget_s=1500))
                    if prog not in (1, 2, 3):
                        continue
                    for k1 in range(7):
                        out.append(dict(name=f'msgs3/prog={prog},transport={transport},k0={k0},k1={k1}', harness='msgs3',
                                        fixed=dict(prog=prog, transport=transport, k0=k0, k1=k1), budget_s=3000))
    return out


BOUNDS = {
    'quick': dict(messages='K = 2 control messages over ' + str(MNAMES) + f' at gaps 0..5 (programs P1 P2 P3); K = 1 at gaps 0..{NPOS}; a failing state-change broadcast (index 0..6, three tolerated exception kinds) alone or with one rpc kill/pause',
                  programs='P0 P1 P2 P3 P10', transport='kiwipy LocalCommunicator, bare or wrapped in plumpy LoopCommunicator', texts='symbolic str len <= 2'),
    'thorough': dict(messages='K = 2 at gaps 0..8 (P1 P2 P3 P10), K = 3 at gaps 0..5 (P1 P2 P3), K = 1 and broadcast failures as quick', programs='P0 P1 P2 P3 P10', transport='as quick', texts='fixed'),
}
OUTSIDE = ['RabbitMQ and real threads (RemoteProcessThreadController is driven from the loop thread)', 'the coroutine-based RemoteProcessController', 'more than K messages',
           'exact twin comparison is required only for quiescent deliveries, as the property says; for in-step deliveries it is carried out when the delivery point can be matched']
RULE = 'paths over (program, transport, K messages with kind/position/text, failing broadcast index/kind); non-trivial when a message was sent to the live process and all four oracles were evaluated'
SOLVER_ROLE = 'selector role for message kinds/positions and the failing broadcast; data role for message texts (compared with the text received by the handler and recorded on kill)'
EXPLANATION = 'handler = direct method with the same text and reply; announcements == observed transitions; tolerated broadcast failures harmless; terminated process unreachable; twin with direct calls at the same progress points'
ASSUMPTIONS = ['pause/play/kill of the controlled process are shadowed by recording wrappers on the instance (no source hook)', 'the environment resumes a waiting process with a default value at idle points in both runs']
REQUIRED_WITNESSES = ['rpc_reply_checked', 'status', 'broadcast_failure_tolerated', 'terminated_process_unroutable', 'twin_compared', 'quiescent_delivery_twin', 'in_step_delivery', 'broadcast_control', 'loop_communicator']
LEVEL_TEXT = ('bounded exhaustive symbolic exploration of control-message schedules over two in-process transports: message -> same method call with same text and same reply, '
              'twin process under direct control behaves identically, state_changed broadcasts == transitions, tolerated broadcast failures harmless, terminated process unreachable')
