"""C04 - a kill request is never lost and no live process is unkillable."""
import vfw  # noqa: F401
import plumpy
from plumpy import process_states as ps
from plumpy.process_comms import MESSAGE_TEXT_KEY
from vfw import programs, sched
from vfw.drive import pick
from vfw.engine import NOTES, Violation, assume
from vfw.sched import GAP, Req

PROPERTY_ID = 'C04'
LEVEL = 'exploration'
S = ps.ProcessState
ACTS = [sched.KILL, sched.PAUSE, sched.PLAY, sched.RESUME, sched.CANCEL]
NACT = len(ACTS)
NWHERE = 7   # gap, 4 listener notification kinds, ENTERING_STATE / EXITING_STATE callbacks
NPOS = 12
CANCEL_TEXT = 'Killed by future being cancelled'


def eff_key(run, reqs, r):
    """effective time of a kill: immediately for kill(); for future().cancel() the kill is issued by a done-callback
    that the loop runs after the callbacks already queued (FIFO), i.e. during tick r.tick + queue_len"""
    if r.act == sched.CANCEL:
        return (cancel_tick(r), 10 ** 6)
    return (r.tick, r.seq)


def cancel_tick(r):
    """tick during which the kill triggered by future().cancel() runs (FIFO queue; +1 if issued inside a callback)"""
    return r.tick + r.queue_len + (0 if r.where == GAP else 1)


def facts_of(run, reqs, first):
    k0 = eff_key(run, reqs, first)
    others = [r for r in reqs if r.applied and r is not first and r.tick is not None]
    after = [r for r in others if (r.tick, r.seq) > (first.tick, first.seq)]
    before = [r for r in others if r not in after]
    return dict(
        kill_where=sched.WHERE_NAMES[first.where],
        kill_by_cancel=first.act == sched.CANCEL,
        kill_while_stepping=first.pre['stepping'],
        kill_while_paused=first.pre['paused'],
        kill_while_pause_pending=first.pre['pausing'],
        kill_while_wakeup_pending=first.pre['waiting_future_done'],
        pause_after_kill_pending=any(r.act == sched.PAUSE and r.pre['killing'] and not r.pre['terminated'] for r in after),
        play_after_kill_pending=any(r.act == sched.PLAY and r.pre['killing'] and r.pre['pausing'] and not r.pre['terminated'] for r in after),
        others_before=sorted({sched.ACT_NAMES[r.act] for r in before if not r.pre['terminated']}),
    )


def oracle(run, reqs):
    p = run.proc
    killers = []
    for r in reqs:
        if not r.applied or r.act not in (sched.KILL, sched.CANCEL) or r.pre['terminated']:
            continue
        if r.act == sched.CANCEL:
            if r.ret is not True:
                continue  # the future was already done: nothing was cancelled
            teff = cancel_tick(r)
            if run.terminal_tick is not None and run.terminal_tick < teff:
                # the process terminated by itself before the loop got to run the cancel's kill
                killed_by_cancel = p.state == S.KILLED and p.killed_msg()[MESSAGE_TEXT_KEY] == CANCEL_TEXT
                if not killed_by_cancel:
                    continue
        killers.append(r)
    # a kill issued from a state-event callback while the process is already moving into a terminal state races with
    # the termination: either outcome is fine, but what kill() returned must still be truthful (checked in (d))
    racing = [r for r in killers if r.pre['into_terminal']]
    killers = [r for r in killers if not r.pre['into_terminal']]
    killers.sort(key=lambda r: eff_key(run, reqs, r))
    for r in reqs:
        if r.applied and r.act == sched.KILL and r.exc is not None:
            first = killers[0] if killers else r
            raise Violation('kill_raised', exc=type(r.exc).__name__, live=not r.pre['terminated'], **facts_of(run, reqs, first))
    if not killers:
        first = None
    else:
        first = killers[0]
        f = facts_of(run, reqs, first)
        # (b) ends KILLED as soon as the current step yields (EXCEPTED only if the in-flight step failed)
        st = p.state
        if st not in (S.KILLED, S.EXCEPTED):
            raise Violation('kill_lost', final=str(st), live_at_end=not p.has_terminated(), **f)
        if st == S.EXCEPTED and not isinstance(p.exception(), programs.Boom):
            raise Violation('kill_ended_excepted', exc=type(p.exception()).__name__, **f)
        # no further state is entered for execution once the kill has been requested (a kill issued from inside a
        # listener notification arrives in the middle of a transition: the state being entered is the one allowed)
        if first.act == sched.CANCEL:
            later = [e for e in run.entered if e[2] >= cancel_tick(first) and e[1] in (S.RUNNING, S.WAITING)]
            allowed = 0
        else:
            later = [e for e in run.entered[first.pre['n_entered']:] if e[1] in (S.RUNNING, S.WAITING)]
            allowed = 0 if first.where == GAP else 1
        if len(later) > allowed:
            raise Violation('step_started_after_kill', n=len(later), **f)
        if first.act == sched.KILL and first.where != GAP:
            # a kill issued by a listener during the transition at the end of a step is carried out at that very step
            # boundary: the state that has just been entered is not executed any more
            ran = [t for t in programs.TRACE[first.pre['trace_len']:] if t[1] == 'enter']
            if ran:
                raise Violation('user_step_ran_after_kill', steps=[t[0] + ':' + t[1] for t in ran][:6], **f)
        if first.act == sched.KILL and first.where == GAP:
            # independent of state entries: no step function may be entered after a kill requested between callbacks
            # (a step in flight may finish its awaits; a process that was not stepping is killed at once)
            ran = [t for t in programs.TRACE[first.pre['trace_len']:] if t[1] == 'enter' or not first.pre['stepping']]
            if ran:
                raise Violation('user_step_ran_after_kill', steps=[t[0] + ':' + t[1] for t in ran][:6], **f)
        if st == S.KILLED:
            text = p.killed_msg()[MESSAGE_TEXT_KEY]
            want = CANCEL_TEXT if first.act == sched.CANCEL else first.txt
            if text != want:
                raise Violation('kill_text', **f)
            if first.act == sched.CANCEL:
                NOTES.witness('future_cancel_killed')
    # (d) the value / future returned by each kill resolves to True exactly when the process ended KILLED
    if killers or racing:
        st = p.state
        f = facts_of(run, reqs, (killers + racing)[0])
        for r in killers + racing:
            if r.act != sched.KILL:
                continue
            if r.pre['into_terminal']:
                NOTES.witness('kill_racing_with_termination')
            ret = r.ret
            if ret is True or ret is False:
                val = ret
            else:
                if not ret.done():
                    raise Violation('kill_future_pending', **f)
                val = (not ret.cancelled()) and ret.exception() is None and ret.result() is True
                NOTES.witness('kill_returned_future')
            if val != (st == S.KILLED):
                raise Violation('kill_return_value', returned=bool(val), final=str(st), **f)
    # (f) from every live end configuration a further kill() terminates the process
    if not p.has_terminated():
        NOTES.witness('final_probe_on_live')
        try:
            p.kill('probe')
        except Exception as e:  # noqa: BLE001
            raise Violation('probe_kill_raised', exc=type(e).__name__)
        run.settle()
        if not p.has_terminated():
            raise Violation('unkillable', state=str(p.state), paused=p.paused,
                            stale_killing=getattr(p, '_killing', None) is not None)
    if not run.task.done():
        raise Violation('stepping_task_not_released', state=str(p.state))


def _harness(prog, specs, restored=False):
    reqs = [Req(w, pos, ACTS[a], val, txt) for (w, pos, a, val, txt) in specs]
    make = None
    if restored:
        # the schedule is applied to a process restored from a checkpoint taken right after creation
        def make(loop):
            import copy
            original = programs.program(prog)(loop=loop)
            bundle = copy.deepcopy(plumpy.Bundle(original))
            original.kill('abandoned')
            return bundle.unbundle(plumpy.LoadSaveContext(loop=loop))
        NOTES.witness('restored_process')
    run = sched.Run(programs.program(prog), reqs, make=make)
    try:
        run.go()
        oracle(run, reqs)
        live = [r for r in reqs if r.applied and not r.pre['terminated']]
        kl = [r for r in live if r.act == sched.KILL]
        if kl:
            NOTES.nontrivial = True
        for r in kl:
            if r.pre['stepping'] and r.where == GAP:
                NOTES.witness('kill_during_step')
            if r.where != GAP:
                NOTES.witness('kill_from_listener')
            if r.pre['paused']:
                NOTES.witness('kill_while_paused')
            if r.pre['state'] == S.WAITING:
                NOTES.witness('kill_while_waiting')
        NOTES.info = dict(prog=prog, schedule=sched.describe(reqs), final=str(run.proc.state))
    finally:
        run.finish()


def _pos_ok(w, pos):
    if w == GAP:
        assume(0 <= pos <= NPOS)
    else:
        assume(0 <= pos <= 2)


def sched1(prog: int, w0: int, p0: int, a0: int, v0: int, t0: str, restored: bool):
    assume(len(t0) <= 2)
    w = pick(w0, NWHERE)
    _pos_ok(w, p0)
    _harness(pick(prog, programs.N_PROGRAMS), [(w, p0, pick(a0, NACT), v0, t0)], restored)


def sched2(prog: int, w0: int, p0: int, a0: int, v0: int, t0: str, w1: int, p1: int, a1: int, v1: int, t1: str):
    assume(len(t0) <= 2 and len(t1) <= 2)
    wa, wb = pick(w0, NWHERE), pick(w1, NWHERE)
    _pos_ok(wa, p0)
    _pos_ok(wb, p1)
    if wa == GAP and wb == GAP:
        assume(p0 <= p1)
    ka, kb = pick(a0, NACT), pick(a1, NACT)
    assume(ka in (0, 4) or kb in (0, 4))  # at least one kill / future cancel
    _harness(pick(prog, programs.N_PROGRAMS), [(wa, p0, ka, v0, t0), (wb, p1, kb, v1, t1)])


def sched3(prog: int, p0: int, a0: int, v0: int, t0: str, p1: int, a1: int, v1: int, t1: str, p2: int, a2: int,
           v2: int, t2: str):
    assume(0 <= p0 <= p1 <= p2 <= NPOS)
    assume(len(t0) <= 1 and len(t1) <= 1 and len(t2) <= 1)
    ka, kb, kc = pick(a0, NACT), pick(a1, NACT), pick(a2, NACT)
    assume(ka in (0, 4) or kb in (0, 4) or kc in (0, 4))
    _harness(pick(prog, programs.N_PROGRAMS), [(GAP, p0, ka, v0, t0), (GAP, p1, kb, v1, t1), (GAP, p2, kc, v2, t2)])


HARNESSES = {'sched1': sched1, 'sched2': sched2, 'sched3': sched3}


def shards(tier):
    out = []
    for prog in range(programs.N_PROGRAMS):
        if tier == 'quick':
            for a0 in (0, 4):
                out.append(dict(name=f'sched1/prog={prog},a0={a0}', harness='sched1', fixed=dict(prog=prog, a0=a0), budget_s=200))
            for a0 in range(NACT):
                out.append(dict(name=f'sched2/prog={prog},a0={a0},gaps', harness='sched2',
                                fixed=dict(prog=prog, a0=a0, w0=0, w1=0), budget_s=300))
                if prog in (2, 7):
                    # both requests anywhere (gap, listener notification, state-event callback) for a waiting program
                    # and a workchain
                    for w0 in range(1, NWHERE):
                        out.append(dict(name=f'sched2/prog={prog},a0={a0},w0={w0}', harness='sched2',
                                        fixed=dict(prog=prog, a0=a0, w0=w0), budget_s=600))
        else:
            for a0 in (0, 4):
                out.append(dict(name=f'sched1/prog={prog},a0={a0}', harness='sched1', fixed=dict(prog=prog, a0=a0), budget_s=600))
            for a0 in range(NACT):
                for w0 in range(NWHERE):
                    if w0 == 0 or prog in (1, 2, 3, 7, 8):
                        out.append(dict(name=f'sched2/prog={prog},a0={a0},w0={w0}', harness='sched2',
                                        fixed=dict(prog=prog, a0=a0, w0=w0), budget_s=1500))
                if prog in (1, 2, 3):
                    for a1 in range(NACT):
                        out.append(dict(name=f'sched3/prog={prog},a0={a0},a1={a1}', harness='sched3',
                                        fixed=dict(prog=prog, a0=a0, a1=a1), budget_s=1500))
    return out


BOUNDS = {
    'quick': dict(requests='K = 2 in gaps (at least one kill or future().cancel()), for P2 and P7 also K = 2 with any placement of both requests; K = 1 kill/cancel from inside a listener notification or an ENTERING_STATE/EXITING_STATE callback during the transition at the end of a step, on a fresh process and on one restored from a checkpoint',
                  actions=[sched.ACT_NAMES[a] for a in ACTS], positions=f'gaps 0..{NPOS}; listener notification / state-event callback occurrence 0..2', programs='P0..P10',
                  data='kill text str len <= 2 (symbolic), resume value int'),
    'thorough': dict(requests='K = 1 (fresh and restored process); K = 2 in gaps for all programs and with gap, listener-notification or state-event-callback placement for each request for P1 P2 P3 P7 P8; K = 3 in gaps for P1 P2 P3', actions=[sched.ACT_NAMES[a] for a in ACTS],
                     positions=f'gaps 0..{NPOS}', programs='P0..P10', data='str len <= 2 (<= 1 for K = 3), int'),
}
OUTSIDE = ['more than K requests', 'kill through a communicator (C16)', 'hooks that raise (C03)', 'real threads']
RULE = ('paths over (program, K requests incl. >= 1 kill/cancel, placement, text); non-trivial when a kill() was applied to the live process')
SOLVER_ROLE = 'selector role for placements/actions; data role for the kill text (killed_msg compared symbolically with the first kill text)'
EXPLANATION = 'kill is never lost / never raises / reports truthfully / text recorded; future().cancel() == kill; final probing kill from every live end configuration'
ASSUMPTIONS = ['environment policy at idle ticks: play a paused process, resume a waiting one / complete its awaited future',
               'a kill issued from inside a listener notification (mid-transition) takes effect at that step boundary: the state being entered is not executed',
               'requests from ENTERING_STATE/EXITING_STATE callbacks are issued only during transitions performed by step() (a control call from inside the transition of another direct control call re-enters transition_to, which plumpy forbids by assertion)',
               'a kill issued from such a callback while the process is already moving into a terminal state races with the termination: either outcome is accepted, but the value/future returned by kill() must resolve and be truthful']
REQUIRED_WITNESSES = ['kill_racing_with_termination', 'restored_process', 'future_cancel_killed', 'kill_during_step', 'kill_from_listener', 'kill_while_paused', 'kill_while_waiting', 'kill_returned_future']
LEVEL_TEXT = ('bounded exhaustive symbolic exploration of schedules containing a kill (or future cancel) against every other control request: '
              'kill never raises, the process ends KILLED before any further step starts, returned value/future truthful, text recorded, and no live end configuration is unkillable')
